/-
The hash-consing environment: every operation's result erases to the pure, environment-free
result (history independence), the table only grows, and in every reachable environment
each structurally distinct sub-diagram of every handed-out diagram is the table's one
shared node.
-/
import Rsbdd.Model.Env
import Rsbdd.Proofs.Eval

namespace Rsbdd
namespace Env
open PBDD

def subtrees : PBDD → List PBDD
  | .F p => [.F p]
  | .T p => [.T p]
  | .node p t v f => .node p t v f :: (subtrees t ++ subtrees f)

/-- every sub-diagram of `p` is the table's entry for its structure: same pointers all the way down -/
def Good (tbl : List (BDD × PBDD)) (p : PBDD) : Prop :=
  ∀ s ∈ subtrees p, lookup s.erase tbl = some s

structure Inv (env : Env) : Prop where
  keys : ∀ k p, lookup k env.table = some p → p.erase = k
  leafT : ∃ p, lookup .T env.table = some p
  leafF : ∃ p, lookup .F env.table = some p
  good : ∀ k p, lookup k env.table = some p → Good env.table p
  /-- every stored node was allocated before `next` … -/
  bound : ∀ k p, lookup k env.table = some p → p.addr < env.next
  /-- … and distinct structures live at distinct addresses -/
  addrInj : ∀ k p k' p', lookup k env.table = some p → lookup k' env.table = some p' → p.addr = p'.addr → k = k'

/-- the table only grows: what was stored stays stored, under the same pointer -/
def Ext (e e' : Env) : Prop := ∀ k p, lookup k e.table = some p → lookup k e'.table = some p

theorem Ext.refl (e : Env) : Ext e e := fun _ _ h => h
theorem Ext.trans {a b c : Env} (h1 : Ext a b) (h2 : Ext b c) : Ext a c :=
  fun k p h => h2 k p (h1 k p h)

theorem Good.ext {e e' : Env} {p : PBDD} (hx : Ext e e') (h : Good e.table p) : Good e'.table p :=
  fun s hs => hx _ _ (h s hs)

theorem self_mem_subtrees (p : PBDD) : p ∈ subtrees p := by cases p <;> simp [subtrees]

theorem Good.lookup_self {tbl : List (BDD × PBDD)} {p : PBDD} (h : Good tbl p) :
    lookup p.erase tbl = some p := h p (self_mem_subtrees p)

theorem Good.left {tbl : List (BDD × PBDD)} {p : Nat} {t f : PBDD} {v : Nat}
    (h : Good tbl (.node p t v f)) : Good tbl t :=
  fun s hs => h s (by simp [subtrees, hs])

theorem Good.right {tbl : List (BDD × PBDD)} {p : Nat} {t f : PBDD} {v : Nat}
    (h : Good tbl (.node p t v f)) : Good tbl f :=
  fun s hs => h s (by simp [subtrees, hs])

theorem inv_new : Inv Env.new := by
  have two : ∀ k p, lookup k Env.new.table = some p → (k = .T ∧ p = .T 0) ∨ (k = .F ∧ p = .F 1) := by
    intro k p h
    simp only [Env.new, lookup] at h
    split at h
    · cases h; rename_i e; exact Or.inl ⟨e.symm, rfl⟩
    · split at h
      · cases h; rename_i e; exact Or.inr ⟨e.symm, rfl⟩
      · simp at h
  refine ⟨?_, ⟨.T 0, by simp [Env.new, lookup]⟩, ⟨.F 1, by simp [Env.new, lookup]⟩, ?_, ?_, ?_⟩
  rotate_left 2
  · intro k p h
    rcases two k p h with ⟨_, rfl⟩ | ⟨_, rfl⟩ <;> simp [PBDD.addr, Env.new]
  · intro k p k' p' h h' e
    rcases two k p h with ⟨rfl, rfl⟩ | ⟨rfl, rfl⟩ <;> rcases two k' p' h' with ⟨rfl, rfl⟩ | ⟨rfl, rfl⟩ <;>
      simp [PBDD.addr] at e ⊢
  · intro k p h
    simp only [Env.new, lookup] at h
    split at h
    · cases h; rename_i e; rw [← e]; rfl
    · split at h
      · cases h; rename_i e; rw [← e]; rfl
      · simp at h
  · intro k p h s hs
    simp only [Env.new, lookup] at h
    split at h
    · cases h; simp [subtrees] at hs; subst hs; simp [Env.new, lookup, erase]
    · split at h
      · cases h; simp [subtrees] at hs; subst hs; simp [Env.new, lookup, erase]
      · simp at h

/-- the shape of what each state-passing operation guarantees -/
structure Post (env : Env) (r : PBDD × Env) (pure : BDD) : Prop where
  inv : Inv r.2
  ext : Ext env r.2
  good : Good r.2.table r.1
  erase : r.1.erase = pure

theorem mkConstM_post (v : Bool) (env : Env) (h : Inv env) :
    Post env (mkConstM v env) (BDD.mkConst v) := by
  cases v
  · obtain ⟨p, hp⟩ := h.leafF
    simp only [mkConstM, Bool.false_eq_true, if_false, hp]
    exact ⟨h, Ext.refl _, h.good _ _ hp, h.keys _ _ hp⟩
  · obtain ⟨p, hp⟩ := h.leafT
    simp only [mkConstM, if_true, hp]
    exact ⟨h, Ext.refl _, h.good _ _ hp, h.keys _ _ hp⟩

theorem lookup_cons_ne {k k' : BDD} {p : PBDD} {tbl : List (BDD × PBDD)} (h : k' ≠ k) :
    lookup k ((k', p) :: tbl) = lookup k tbl := by simp [lookup, h]

theorem mkChoiceM_post (t : PBDD) (s : Nat) (f : PBDD) (env : Env) (h : Inv env)
    (ht : Good env.table t) (hf : Good env.table f) :
    Post env (mkChoiceM t s f env) (BDD.mk t.erase s f.erase) := by
  unfold mkChoiceM
  by_cases heq : t.erase = f.erase
  · -- both subtrees equal: the candidate is `t`, which is in the table
    simp only [heq, if_true]
    have hl := ht.lookup_self
    rw [heq] at hl
    simp only [hl]
    refine ⟨⟨h.keys, h.leafT, h.leafF, h.good, fun k p hk => Nat.lt_succ_of_lt (h.bound k p hk), h.addrInj⟩, fun _ _ hh => hh, ?_, ?_⟩
    · exact ht
    · simp [BDD.mk, heq]
  · simp only [heq, if_false]
    cases hl : lookup (PBDD.node env.next t s f).erase env.table with
    | some stored =>
      simp only []
      refine ⟨⟨h.keys, h.leafT, h.leafF, h.good, fun k p hk => Nat.lt_succ_of_lt (h.bound k p hk), h.addrInj⟩, fun _ _ hh => hh, h.good _ _ hl, ?_⟩
      rw [h.keys _ _ hl]; simp [PBDD.erase, BDD.mk, heq]
    | none =>
      simp only []
      -- the new key is not in the old table
      have hnew : ∀ k p, lookup k env.table = some p → k ≠ (PBDD.node env.next t s f).erase := by
        intro k p hk e; rw [e, hl] at hk; simp at hk
      have hext : ∀ k p, lookup k env.table = some p →
          lookup k (((PBDD.node env.next t s f).erase, PBDD.node env.next t s f) :: env.table) = some p := by
        intro k p hk
        rw [lookup_cons_ne (fun e => hnew k p hk e.symm)]; exact hk
      have hgood_old : ∀ q, Good env.table q →
          Good (((PBDD.node env.next t s f).erase, PBDD.node env.next t s f) :: env.table) q :=
        fun q hq s' hs' => hext _ _ (hq s' hs')
      have hgood_new : Good (((PBDD.node env.next t s f).erase, PBDD.node env.next t s f) :: env.table)
          (PBDD.node env.next t s f) := by
        intro s' hs'
        simp only [subtrees, List.mem_cons, List.mem_append] at hs'
        rcases hs' with rfl | hs' | hs'
        · simp [lookup]
        · exact hgood_old t ht s' hs'
        · exact hgood_old f hf s' hs'
      refine ⟨⟨?_, ?_, ?_, ?_, ?_, ?_⟩, hext, hgood_new, ?_⟩
      · intro k p hk
        simp only [lookup] at hk
        split at hk
        · cases hk; rename_i e; exact e
        · exact h.keys k p hk
      · obtain ⟨p, hp⟩ := h.leafT; exact ⟨p, hext _ _ hp⟩
      · obtain ⟨p, hp⟩ := h.leafF; exact ⟨p, hext _ _ hp⟩
      · intro k p hk
        simp only [lookup] at hk
        split at hk
        · cases hk; exact hgood_new
        · exact hgood_old p (h.good k p hk)
      · -- addresses stay below the allocation counter
        intro k p hk
        simp only [lookup] at hk
        split at hk
        · cases hk; simp [PBDD.addr]
        · exact Nat.lt_succ_of_lt (h.bound k p hk)
      · -- the new node's address is fresh
        intro k p k' p' hk hk' e
        simp only [lookup] at hk hk'
        split at hk
        · cases hk
          split at hk'
          · rename_i e1 e2; rw [← e1, ← e2]
          · have hb := h.bound k' p' hk'
            have e' : env.next = p'.addr := e
            omega
        · split at hk'
          · cases hk'
            have hb := h.bound k p hk
            have e' : p.addr = env.next := e
            omega
          · exact h.addrInj k p k' p' hk hk' e
      · simp [PBDD.erase, BDD.mk, heq]

/-- sequencing: run `m`, then a continuation that needs the result and everything that was
good before to still be good -/
theorem Post.good_of_ext {env : Env} {r : PBDD × Env} {pure : BDD} (h : Post env r pure)
    {q : PBDD} (hq : Good env.table q) : Good r.2.table q := Good.ext h.ext hq

theorem varM_post (s : Nat) (env : Env) (h : Inv env) : Post env (varM s env) (BDD.var s) := by
  unfold varM
  have p1 := mkConstM_post true env h
  have p2 := mkConstM_post false (mkConstM true env).2 p1.inv
  have p3 := mkChoiceM_post (mkConstM true env).1 s (mkConstM false (mkConstM true env).2).1 _ p2.inv
    (p2.good_of_ext p1.good) p2.good
  refine ⟨p3.inv, (p1.ext.trans p2.ext).trans p3.ext, p3.good, ?_⟩
  rw [p3.erase, p1.erase, p2.erase]; rfl


theorem mk_of_two {env : Env} {m1 m2 : M PBDD} {pa pb : BDD} {v : Nat}
    (h1 : ∀ e, Inv e → Ext env e → Post e (m1 e) pa)
    (h2 : ∀ e, Inv e → Ext env e → Post e (m2 e) pb) (h : Inv env) :
    Post env (mkChoiceM (m1 env).1 v (m2 (m1 env).2).1 (m2 (m1 env).2).2) (BDD.mk pa v pb) := by
  have p1 := h1 env h (Ext.refl _)
  have p2 := h2 (m1 env).2 p1.inv p1.ext
  have p3 := mkChoiceM_post (m1 env).1 v (m2 (m1 env).2).1 _ p2.inv (p2.good_of_ext p1.good) p2.good
  exact ⟨p3.inv, (p1.ext.trans p2.ext).trans p3.ext, p3.good, by rw [p3.erase, p1.erase, p2.erase]⟩

theorem andM_post (a b : PBDD) : ∀ env, Inv env → Good env.table a → Good env.table b →
    Post env (andM a b env) (BDD.and a.erase b.erase) := by
  fun_induction andM a b
  all_goals intro env h ha hb
  · simpa [PBDD.erase] using mkConstM_post false env h
  · simpa [PBDD.erase] using mkConstM_post false env h
  · exact ⟨h, Ext.refl _, hb, by simp [PBDD.erase]⟩
  · exact ⟨h, Ext.refl _, ha, by simp [PBDD.erase]⟩
  · rename_i pa at_ va af pb bt vb bf ih6 ih5 ih4 ih3 ih2 ih1
    dsimp only
    by_cases h1 : va < vb
    · simp only [h1, if_true]
      have := mk_of_two (env := env) (v := va)
        (m1 := andM at_ (.node pb bt vb bf)) (m2 := andM af (.node pb bt vb bf))
        (fun e he hx => ih6 e he (Good.ext hx ha.left) (Good.ext hx hb))
        (fun e he hx => ih5 e he (Good.ext hx ha.right) (Good.ext hx hb)) h
      rw [show (PBDD.node pa at_ va af).erase = BDD.node at_.erase va af.erase from rfl,
          show (PBDD.node pb bt vb bf).erase = BDD.node bt.erase vb bf.erase from rfl, BDD.and]
      simpa [h1, PBDD.erase] using this
    · by_cases h2 : vb < va
      · simp only [h1, h2, if_true, if_false]
        have := mk_of_two (env := env) (v := vb)
          (m1 := andM bt (.node pa at_ va af)) (m2 := andM bf (.node pa at_ va af))
          (fun e he hx => ih4 e he (Good.ext hx hb.left) (Good.ext hx ha))
          (fun e he hx => ih3 e he (Good.ext hx hb.right) (Good.ext hx ha)) h
        rw [show (PBDD.node pa at_ va af).erase = BDD.node at_.erase va af.erase from rfl,
            show (PBDD.node pb bt vb bf).erase = BDD.node bt.erase vb bf.erase from rfl, BDD.and]
        simpa [h1, h2, PBDD.erase] using this
      · simp only [h1, h2, if_false]
        have := mk_of_two (env := env) (v := va)
          (m1 := andM at_ bt) (m2 := andM af bf)
          (fun e he hx => ih2 e he (Good.ext hx ha.left) (Good.ext hx hb.left))
          (fun e he hx => ih1 e he (Good.ext hx ha.right) (Good.ext hx hb.right)) h
        rw [show (PBDD.node pa at_ va af).erase = BDD.node at_.erase va af.erase from rfl,
            show (PBDD.node pb bt vb bf).erase = BDD.node bt.erase vb bf.erase from rfl, BDD.and]
        simpa [h1, h2, PBDD.erase] using this

theorem orM_post (a b : PBDD) : ∀ env, Inv env → Good env.table a → Good env.table b →
    Post env (orM a b env) (BDD.or a.erase b.erase) := by
  fun_induction orM a b
  all_goals intro env h ha hb
  · simpa [PBDD.erase] using mkConstM_post true env h
  · simpa [PBDD.erase] using mkConstM_post true env h
  · exact ⟨h, Ext.refl _, hb, by simp [PBDD.erase]⟩
  · exact ⟨h, Ext.refl _, ha, by simp [PBDD.erase]⟩
  · rename_i pa at_ va af pb bt vb bf ih6 ih5 ih4 ih3 ih2 ih1
    dsimp only
    by_cases h1 : va < vb
    · simp only [h1, if_true]
      have := mk_of_two (env := env) (v := va)
        (m1 := orM at_ (.node pb bt vb bf)) (m2 := orM af (.node pb bt vb bf))
        (fun e he hx => ih6 e he (Good.ext hx ha.left) (Good.ext hx hb))
        (fun e he hx => ih5 e he (Good.ext hx ha.right) (Good.ext hx hb)) h
      rw [show (PBDD.node pa at_ va af).erase = BDD.node at_.erase va af.erase from rfl,
          show (PBDD.node pb bt vb bf).erase = BDD.node bt.erase vb bf.erase from rfl, BDD.or]
      simpa [h1, PBDD.erase] using this
    · by_cases h2 : vb < va
      · simp only [h1, h2, if_true, if_false]
        have := mk_of_two (env := env) (v := vb)
          (m1 := orM bt (.node pa at_ va af)) (m2 := orM bf (.node pa at_ va af))
          (fun e he hx => ih4 e he (Good.ext hx hb.left) (Good.ext hx ha))
          (fun e he hx => ih3 e he (Good.ext hx hb.right) (Good.ext hx ha)) h
        rw [show (PBDD.node pa at_ va af).erase = BDD.node at_.erase va af.erase from rfl,
            show (PBDD.node pb bt vb bf).erase = BDD.node bt.erase vb bf.erase from rfl, BDD.or]
        simpa [h1, h2, PBDD.erase] using this
      · simp only [h1, h2, if_false]
        have := mk_of_two (env := env) (v := va)
          (m1 := orM at_ bt) (m2 := orM af bf)
          (fun e he hx => ih2 e he (Good.ext hx ha.left) (Good.ext hx hb.left))
          (fun e he hx => ih1 e he (Good.ext hx ha.right) (Good.ext hx hb.right)) h
        rw [show (PBDD.node pa at_ va af).erase = BDD.node at_.erase va af.erase from rfl,
            show (PBDD.node pb bt vb bf).erase = BDD.node bt.erase vb bf.erase from rfl, BDD.or]
        simpa [h1, h2, PBDD.erase] using this

theorem notM_post (a : PBDD) : ∀ env, Inv env → Good env.table a →
    Post env (notM a env) (BDD.not a.erase) := by
  induction a with
  | F p => intro env h _; simpa [notM, PBDD.erase, BDD.not] using mkConstM_post true env h
  | T p => intro env h _; simpa [notM, PBDD.erase, BDD.not] using mkConstM_post false env h
  | node p t v f iht ihf =>
    intro env h ha
    have := mk_of_two (env := env) (v := v) (m1 := notM t) (m2 := notM f)
      (fun e he hx => iht e he (Good.ext hx ha.left))
      (fun e he hx => ihf e he (Good.ext hx ha.right)) h
    simpa [notM, PBDD.erase, BDD.not] using this

/-- sequencing of two operations whose second uses the first's result -/
theorem Post.seq {env : Env} {r1 : PBDD × Env} {p1 p2 : BDD} {r2 : PBDD × Env}
    (h1 : Post env r1 p1) (h2 : Post r1.2 r2 p2) : Post env r2 p2 :=
  ⟨h2.inv, h1.ext.trans h2.ext, h2.good, h2.erase⟩

theorem impliesM_post (a b : PBDD) (env : Env) (h : Inv env) (ha : Good env.table a)
    (hb : Good env.table b) : Post env (impliesM a b env) (BDD.implies a.erase b.erase) := by
  unfold impliesM
  have p1 := notM_post a env h ha
  have p2 := orM_post (notM a env).1 b _ p1.inv p1.good (p1.good_of_ext hb)
  refine Post.seq p1 ?_
  simpa [BDD.implies, p1.erase] using p2

theorem iteM_post (a b c : PBDD) (env : Env) (h : Inv env) (ha : Good env.table a)
    (hb : Good env.table b) (hc : Good env.table c) :
    Post env (iteM a b c env) (BDD.ite a.erase b.erase c.erase) := by
  unfold iteM
  have p1 := impliesM_post a b env h ha hb
  have p2 := notM_post a _ p1.inv (p1.good_of_ext ha)
  have p3 := impliesM_post (notM a (impliesM a b env).2).1 c _ p2.inv p2.good
    (p2.good_of_ext (p1.good_of_ext hc))
  have p4 := andM_post (impliesM a b env).1 (impliesM (notM a (impliesM a b env).2).1 c (notM a (impliesM a b env).2).2).1 _
    p3.inv (p3.good_of_ext (p2.good_of_ext p1.good)) p3.good
  refine Post.seq p1 (Post.seq p2 (Post.seq p3 ?_))
  simpa [BDD.ite, p1.erase, p2.erase, p3.erase] using p4

theorem eqM_post (a b : PBDD) (env : Env) (h : Inv env) (ha : Good env.table a)
    (hb : Good env.table b) : Post env (eqM a b env) (BDD.eq a.erase b.erase) := by
  unfold eqM
  have p1 := impliesM_post a b env h ha hb
  have p2 := impliesM_post b a _ p1.inv (p1.good_of_ext hb) (p1.good_of_ext ha)
  have p3 := andM_post (impliesM a b env).1 (impliesM b a (impliesM a b env).2).1 _ p2.inv
    (p2.good_of_ext p1.good) p2.good
  refine Post.seq p1 (Post.seq p2 ?_)
  simpa [BDD.eq, p1.erase, p2.erase] using p3

theorem xorM_post (a b : PBDD) (env : Env) (h : Inv env) (ha : Good env.table a)
    (hb : Good env.table b) : Post env (xorM a b env) (BDD.xor a.erase b.erase) := by
  unfold xorM
  have p1 := notM_post a env h ha
  have p2 := andM_post (notM a env).1 b _ p1.inv p1.good (p1.good_of_ext hb)
  have p3 := notM_post b _ p2.inv (p2.good_of_ext (p1.good_of_ext hb))
  have p4 := andM_post a (notM b (andM (notM a env).1 b (notM a env).2).2).1 _ p3.inv
    (p3.good_of_ext (p2.good_of_ext (p1.good_of_ext ha))) p3.good
  have p5 := orM_post (andM (notM a env).1 b (notM a env).2).1
    (andM a (notM b (andM (notM a env).1 b (notM a env).2).2).1 (notM b (andM (notM a env).1 b (notM a env).2).2).2).1 _
    p4.inv (p4.good_of_ext (p3.good_of_ext p2.good)) p4.good
  refine Post.seq p1 (Post.seq p2 (Post.seq p3 (Post.seq p4 ?_)))
  simpa [BDD.xor, p1.erase, p2.erase, p3.erase, p4.erase] using p5

theorem norM_post (a b : PBDD) (env : Env) (h : Inv env) (ha : Good env.table a)
    (hb : Good env.table b) : Post env (norM a b env) (BDD.nor a.erase b.erase) := by
  unfold norM
  have p1 := notM_post a env h ha
  have p2 := notM_post b _ p1.inv (p1.good_of_ext hb)
  have p3 := andM_post (notM a env).1 (notM b (notM a env).2).1 _ p2.inv (p2.good_of_ext p1.good) p2.good
  refine Post.seq p1 (Post.seq p2 ?_)
  simpa [BDD.nor, p1.erase, p2.erase] using p3

theorem nandM_post (a b : PBDD) (env : Env) (h : Inv env) (ha : Good env.table a)
    (hb : Good env.table b) : Post env (nandM a b env) (BDD.nand a.erase b.erase) := by
  unfold nandM
  have p1 := andM_post a b env h ha hb
  have p2 := notM_post (andM a b env).1 _ p1.inv p1.good
  refine Post.seq p1 ?_
  simpa [BDD.nand, p1.erase] using p2

theorem cmpCountM_post (cmp : Int → Bool) (bs : List PBDD) : ∀ (n : Int) (env : Env), Inv env →
    (∀ b ∈ bs, Good env.table b) →
    Post env (cmpCountM cmp bs n env) (BDD.cmpCount cmp (bs.map PBDD.erase) n) := by
  induction bs with
  | nil => intro n env h _; simpa [cmpCountM, BDD.cmpCount] using mkConstM_post (cmp n) env h
  | cons b bs ih =>
    intro n env h hg
    simp only [cmpCountM]
    have hbs : ∀ e, Ext env e → ∀ x ∈ bs, Good e.table x := fun e hx x hm => Good.ext hx (hg x (by simp [hm]))
    have p1 := ih (n - 1) env h (hbs env (Ext.refl _))
    have p2 := ih n _ p1.inv (hbs _ p1.ext)
    have p3 := iteM_post b (cmpCountM cmp bs (n - 1) env).1 (cmpCountM cmp bs n (cmpCountM cmp bs (n - 1) env).2).1 _
      p2.inv (p2.good_of_ext (p1.good_of_ext (hg b (by simp)))) (p2.good_of_ext p1.good) p2.good
    refine Post.seq p1 (Post.seq p2 ?_)
    simpa [BDD.cmpCount, p1.erase, p2.erase] using p3

theorem cmpCountCompareM_post {cmpM : List PBDD → Int → M PBDD} {cmp : List BDD → Int → BDD}
    (bs : List PBDD)
    (hcmp : ∀ (n : Int) (env : Env), Inv env → (∀ b ∈ bs, Good env.table b) →
      Post env (cmpM bs n env) (cmp (bs.map PBDD.erase) n))
    (as : List PBDD) : ∀ (n : Int) (env : Env), Inv env →
    (∀ a ∈ as, Good env.table a) → (∀ b ∈ bs, Good env.table b) →
    Post env (cmpCountCompareM cmpM as bs n env)
      (BDD.cmpCountCompare cmp (as.map PBDD.erase) (bs.map PBDD.erase) n) := by
  induction as with
  | nil => intro n env h _ hb; simpa [cmpCountCompareM, BDD.cmpCountCompare] using hcmp n env h hb
  | cons a as ih =>
    intro n env h ha hb
    simp only [cmpCountCompareM]
    have has : ∀ e, Ext env e → ∀ x ∈ as, Good e.table x := fun e hx x hm => Good.ext hx (ha x (by simp [hm]))
    have hbs : ∀ e, Ext env e → ∀ x ∈ bs, Good e.table x := fun e hx x hm => Good.ext hx (hb x hm)
    have p1 := ih (n + 1) env h (has env (Ext.refl _)) hb
    have p2 := ih n _ p1.inv (has _ p1.ext) (hbs _ p1.ext)
    have p3 := iteM_post a (cmpCountCompareM cmpM as bs (n + 1) env).1
      (cmpCountCompareM cmpM as bs n (cmpCountCompareM cmpM as bs (n + 1) env).2).1 _
      p2.inv (p2.good_of_ext (p1.good_of_ext (ha a (by simp)))) (p2.good_of_ext p1.good) p2.good
    refine Post.seq p1 (Post.seq p2 ?_)
    simpa [BDD.cmpCountCompare, p1.erase, p2.erase] using p3

theorem existsImplM_post (s : Nat) (a : PBDD) : ∀ env, Inv env → Good env.table a →
    Post env (existsImplM s a env) (BDD.existsImpl s a.erase) := by
  induction a with
  | F p => intro env h ha; exact ⟨h, Ext.refl _, ha, rfl⟩
  | T p => intro env h ha; exact ⟨h, Ext.refl _, ha, rfl⟩
  | node p t v f iht ihf =>
    intro env h ha
    simp only [existsImplM]
    by_cases hv : v = s
    · simp only [hv, if_true]
      have := orM_post t f env h ha.left ha.right
      simpa [PBDD.erase, BDD.existsImpl, hv] using this
    · simp only [hv, if_false]
      have := mk_of_two (env := env) (v := v) (m1 := existsImplM s t) (m2 := existsImplM s f)
        (fun e he hx => iht e he (Good.ext hx ha.left))
        (fun e he hx => ihf e he (Good.ext hx ha.right)) h
      simpa [PBDD.erase, BDD.existsImpl, hv] using this

theorem existsM_post (ss : List Nat) (a : PBDD) : ∀ env, Inv env → Good env.table a →
    Post env (existsM ss a env) (BDD.exists_ ss a.erase) := by
  induction ss with
  | nil => intro env h ha; exact ⟨h, Ext.refl _, ha, rfl⟩
  | cons s ss ih =>
    intro env h ha
    simp only [existsM]
    have p1 := ih env h ha
    have p2 := existsImplM_post s (existsM ss a env).1 _ p1.inv p1.good
    refine Post.seq p1 ?_
    simpa [BDD.exists_, p1.erase] using p2

theorem allM_post (ss : List Nat) (a : PBDD) (env : Env) (h : Inv env) (ha : Good env.table a) :
    Post env (allM ss a env) (BDD.all ss a.erase) := by
  unfold allM
  have p1 := notM_post a env h ha
  have p2 := existsM_post ss (notM a env).1 _ p1.inv p1.good
  have p3 := notM_post (existsM ss (notM a env).1 (notM a env).2).1 _ p2.inv p2.good
  refine Post.seq p1 (Post.seq p2 ?_)
  simpa [BDD.all, p1.erase, p2.erase] using p3

end Env
end Rsbdd
