/-
The hash-consing environment: every operation's result erases to the pure, environment-free
result (history independence), the table only grows, and in every reachable environment
each structurally distinct sub-diagram of every handed-out diagram is the table's one
shared node.
-/
import Rsbdd.Model.Env
import Rsbdd.Proofs.Eval

namespace Rsbdd
namespace Env
open PBDD

def subtrees : PBDD → List PBDD
  | .F p => [.F p]
  | .T p => [.T p]
  | .node p t v f => .node p t v f :: (subtrees t ++ subtrees f)

/-- every sub-diagram of `p` is the table's entry for its structure: same pointers all the way down -/
def Good (tbl : List (BDD × PBDD)) (p : PBDD) : Prop :=
  ∀ s ∈ subtrees p, lookup s.erase tbl = some s

structure Inv (env : Env) : Prop where
  keys : ∀ k p, lookup k env.table = some p → p.erase = k
  leafT : ∃ p, lookup .T env.table = some p
  leafF : ∃ p, lookup .F env.table = some p
  good : ∀ k p, lookup k env.table = some p → Good env.table p

/-- the table only grows: what was stored stays stored, under the same pointer -/
def Ext (e e' : Env) : Prop := ∀ k p, lookup k e.table = some p → lookup k e'.table = some p

theorem Ext.refl (e : Env) : Ext e e := fun _ _ h => h
theorem Ext.trans {a b c : Env} (h1 : Ext a b) (h2 : Ext b c) : Ext a c :=
  fun k p h => h2 k p (h1 k p h)

theorem Good.ext {e e' : Env} {p : PBDD} (hx : Ext e e') (h : Good e.table p) : Good e'.table p :=
  fun s hs => hx _ _ (h s hs)

theorem self_mem_subtrees (p : PBDD) : p ∈ subtrees p := by cases p <;> simp [subtrees]

theorem Good.lookup_self {tbl : List (BDD × PBDD)} {p : PBDD} (h : Good tbl p) :
    lookup p.erase tbl = some p := h p (self_mem_subtrees p)

theorem Good.left {tbl : List (BDD × PBDD)} {p : Nat} {t f : PBDD} {v : Nat}
    (h : Good tbl (.node p t v f)) : Good tbl t :=
  fun s hs => h s (by simp [subtrees, hs])

theorem Good.right {tbl : List (BDD × PBDD)} {p : Nat} {t f : PBDD} {v : Nat}
    (h : Good tbl (.node p t v f)) : Good tbl f :=
  fun s hs => h s (by simp [subtrees, hs])

theorem inv_new : Inv Env.new := by
  refine ⟨?_, ⟨.T 0, by simp [Env.new, lookup]⟩, ⟨.F 1, by simp [Env.new, lookup]⟩, ?_⟩
  · intro k p h
    simp only [Env.new, lookup] at h
    split at h
    · cases h; rename_i e; rw [← e]; rfl
    · split at h
      · cases h; rename_i e; rw [← e]; rfl
      · simp at h
  · intro k p h s hs
    simp only [Env.new, lookup] at h
    split at h
    · cases h; simp [subtrees] at hs; subst hs; simp [Env.new, lookup, erase]
    · split at h
      · cases h; simp [subtrees] at hs; subst hs; simp [Env.new, lookup, erase]
      · simp at h

/-- the shape of what each state-passing operation guarantees -/
structure Post (env : Env) (r : PBDD × Env) (pure : BDD) : Prop where
  inv : Inv r.2
  ext : Ext env r.2
  good : Good r.2.table r.1
  erase : r.1.erase = pure

theorem mkConstM_post (v : Bool) (env : Env) (h : Inv env) :
    Post env (mkConstM v env) (BDD.mkConst v) := by
  cases v
  · obtain ⟨p, hp⟩ := h.leafF
    simp only [mkConstM, Bool.false_eq_true, if_false, hp]
    exact ⟨h, Ext.refl _, h.good _ _ hp, h.keys _ _ hp⟩
  · obtain ⟨p, hp⟩ := h.leafT
    simp only [mkConstM, if_true, hp]
    exact ⟨h, Ext.refl _, h.good _ _ hp, h.keys _ _ hp⟩

theorem lookup_cons_ne {k k' : BDD} {p : PBDD} {tbl : List (BDD × PBDD)} (h : k' ≠ k) :
    lookup k ((k', p) :: tbl) = lookup k tbl := by simp [lookup, h]

theorem mkChoiceM_post (t : PBDD) (s : Nat) (f : PBDD) (env : Env) (h : Inv env)
    (ht : Good env.table t) (hf : Good env.table f) :
    Post env (mkChoiceM t s f env) (BDD.mk t.erase s f.erase) := by
  unfold mkChoiceM
  by_cases heq : t.erase = f.erase
  · -- both subtrees equal: the candidate is `t`, which is in the table
    simp only [heq, if_true]
    have hl := ht.lookup_self
    rw [heq] at hl
    simp only [hl]
    refine ⟨⟨h.keys, h.leafT, h.leafF, h.good⟩, fun _ _ hh => hh, ?_, ?_⟩
    · exact ht
    · simp [BDD.mk, heq]
  · simp only [heq, if_false]
    cases hl : lookup (PBDD.node env.next t s f).erase env.table with
    | some stored =>
      simp only []
      refine ⟨⟨h.keys, h.leafT, h.leafF, h.good⟩, fun _ _ hh => hh, h.good _ _ hl, ?_⟩
      rw [h.keys _ _ hl]; simp [PBDD.erase, BDD.mk, heq]
    | none =>
      simp only []
      -- the new key is not in the old table
      have hnew : ∀ k p, lookup k env.table = some p → k ≠ (PBDD.node env.next t s f).erase := by
        intro k p hk e; rw [e, hl] at hk; simp at hk
      have hext : ∀ k p, lookup k env.table = some p →
          lookup k (((PBDD.node env.next t s f).erase, PBDD.node env.next t s f) :: env.table) = some p := by
        intro k p hk
        rw [lookup_cons_ne (fun e => hnew k p hk e.symm)]; exact hk
      have hgood_old : ∀ q, Good env.table q →
          Good (((PBDD.node env.next t s f).erase, PBDD.node env.next t s f) :: env.table) q :=
        fun q hq s' hs' => hext _ _ (hq s' hs')
      have hgood_new : Good (((PBDD.node env.next t s f).erase, PBDD.node env.next t s f) :: env.table)
          (PBDD.node env.next t s f) := by
        intro s' hs'
        simp only [subtrees, List.mem_cons, List.mem_append] at hs'
        rcases hs' with rfl | hs' | hs'
        · simp [lookup]
        · exact hgood_old t ht s' hs'
        · exact hgood_old f hf s' hs'
      refine ⟨⟨?_, ?_, ?_, ?_⟩, hext, hgood_new, ?_⟩
      · intro k p hk
        simp only [lookup] at hk
        split at hk
        · cases hk; rename_i e; exact e
        · exact h.keys k p hk
      · obtain ⟨p, hp⟩ := h.leafT; exact ⟨p, hext _ _ hp⟩
      · obtain ⟨p, hp⟩ := h.leafF; exact ⟨p, hext _ _ hp⟩
      · intro k p hk
        simp only [lookup] at hk
        split at hk
        · cases hk; exact hgood_new
        · exact hgood_old p (h.good k p hk)
      · simp [PBDD.erase, BDD.mk, heq]

/-- sequencing: run `m`, then a continuation that needs the result and everything that was
good before to still be good -/
theorem Post.good_of_ext {env : Env} {r : PBDD × Env} {pure : BDD} (h : Post env r pure)
    {q : PBDD} (hq : Good env.table q) : Good r.2.table q := Good.ext h.ext hq

theorem varM_post (s : Nat) (env : Env) (h : Inv env) : Post env (varM s env) (BDD.var s) := by
  unfold varM
  have p1 := mkConstM_post true env h
  have p2 := mkConstM_post false (mkConstM true env).2 p1.inv
  have p3 := mkChoiceM_post (mkConstM true env).1 s (mkConstM false (mkConstM true env).2).1 _ p2.inv
    (p2.good_of_ext p1.good) p2.good
  refine ⟨p3.inv, (p1.ext.trans p2.ext).trans p3.ext, p3.good, ?_⟩
  rw [p3.erase, p1.erase, p2.erase]; rfl

end Env
end Rsbdd
