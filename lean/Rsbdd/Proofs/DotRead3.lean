import Rsbdd.Proofs.DotRead2
namespace Rsbdd.DotText

/-- `unescape` inverts `escape` -/
theorem unescape_escape : ∀ s : List Char, unescape (escape s) = some s
  | [] => by simp [escape, unescape]
  | c :: s => by
    have ih := unescape_escape s
    unfold escape at ih ⊢
    rw [List.flatMap_cons, unescape_escapeChar, ih]
    rfl

/-- escaped text is printable ASCII: in particular free of line feeds -/
theorem nl_not_mem_escapeChar (c : Char) : '\n' ∉ escapeChar c := by
  unfold escapeChar
  split; · decide
  split; · decide
  split; · decide
  split; · decide
  split; · decide
  split; · decide
  split
  · rename_i h1 h2 h3 h4 h5 h6 h7
    simp only [List.mem_singleton]
    exact fun e => h3 e.symm
  · simp only [List.cons_append, List.nil_append, List.mem_cons, List.mem_append, List.not_mem_nil, or_false]
    intro h
    rcases h with h | h | h | h | h
    · exact absurd h (by decide)
    · exact absurd h (by decide)
    · exact absurd h (by decide)
    · exact nl_not_mem_hexDigits _ _ h
    · exact absurd h (by decide)

theorem nl_not_mem_escape (s : List Char) : '\n' ∉ escape s := by
  intro h
  obtain ⟨c, _, hc⟩ := List.mem_flatMap.mp h
  exact nl_not_mem_escapeChar c hc

end Rsbdd.DotText
