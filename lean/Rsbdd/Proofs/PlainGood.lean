import Rsbdd.Proofs.Rename
import Rsbdd.Thm.C01
namespace Rsbdd
open Formula BDD

mutual
theorem goodF_plain : ∀ f : Formula, C01.NoFix f → NoLeaf f → GoodF f
  | .false_, _, _ => by simp [GoodF]
  | .true_, _, _ => by simp [GoodF]
  | .var _, _, _ => by simp [GoodF]
  | .ref _, _, _ => by simp [GoodF]
  | .subtree _, _, h => by simp [NoLeaf] at h
  | .not f, h1, h2 => by simp only [GoodF]; exact goodF_plain f h1 h2
  | .quant _ _ f, h1, h2 => by simp only [GoodF]; exact goodF_plain f h1 h2
  | .cntConst _ fs _, h1, h2 => by simp only [GoodF]; exact goodFL_plain fs h1 h2
  | .cntVar _ l r, h1, h2 => by simp only [GoodF]; exact ⟨goodFL_plain l h1.1 h2.1, goodFL_plain r h1.2 h2.2⟩
  | .fix _ _ _, h1, _ => by simp [C01.NoFix] at h1
  | .ite c t e, h1, h2 => by
    simp only [GoodF]; exact ⟨goodF_plain c h1.1 h2.1, goodF_plain t h1.2.1 h2.2.1, goodF_plain e h1.2.2 h2.2.2⟩
  | .bin _ l r, h1, h2 => by simp only [GoodF]; exact ⟨goodF_plain l h1.1 h2.1, goodF_plain r h1.2 h2.2⟩
theorem goodFL_plain : ∀ fs : List Formula, C01.NoFixL fs → NoLeafL fs → GoodFL fs
  | [], _, _ => by simp [GoodFL]
  | f :: fs, h1, h2 => by simp only [GoodFL]; exact ⟨goodF_plain f h1.1 h2.1, goodFL_plain fs h1.2 h2.2⟩
end

mutual
theorem noFix_rename (p : Nat → Nat) : ∀ f : Formula, C01.NoFix f → C01.NoFix (renameF p f)
  | .false_, _ => by simp [renameF, C01.NoFix]
  | .true_, _ => by simp [renameF, C01.NoFix]
  | .var _, _ => by simp [renameF, C01.NoFix]
  | .ref _, _ => by simp [renameF, C01.NoFix]
  | .subtree _, _ => by simp [renameF, C01.NoFix]
  | .not f, h => by simp only [renameF, C01.NoFix]; exact noFix_rename p f h
  | .quant _ _ f, h => by simp only [renameF, C01.NoFix]; exact noFix_rename p f h
  | .cntConst _ fs _, h => by simp only [renameF, C01.NoFix]; exact noFixL_rename p fs h
  | .cntVar _ l r, h => by simp only [renameF, C01.NoFix]; exact ⟨noFixL_rename p l h.1, noFixL_rename p r h.2⟩
  | .fix _ _ _, h => by simp [C01.NoFix] at h
  | .ite c t e, h => by
    simp only [renameF, C01.NoFix]; exact ⟨noFix_rename p c h.1, noFix_rename p t h.2.1, noFix_rename p e h.2.2⟩
  | .bin _ l r, h => by simp only [renameF, C01.NoFix]; exact ⟨noFix_rename p l h.1, noFix_rename p r h.2⟩
theorem noFixL_rename (p : Nat → Nat) : ∀ fs : List Formula, C01.NoFixL fs → C01.NoFixL (renameFL p fs)
  | [], _ => by simp [renameFL, C01.NoFixL]
  | f :: fs, h => by simp only [renameFL, C01.NoFixL]; exact ⟨noFix_rename p f h.1, noFixL_rename p fs h.2⟩
end

end Rsbdd
