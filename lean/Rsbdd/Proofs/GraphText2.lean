import Rsbdd.Proofs.GraphText1
namespace Rsbdd.Gen.GraphText
open Cli.Text (splitAcc allSome splitAcc_segs allSome_map)

theorem stripPre_append (p s : List Char) : stripPre p (p ++ s) = some s := by
  unfold stripPre
  have : p.isPrefixOf (p ++ s) = true := by rw [List.isPrefixOf_iff_prefix]; exact List.prefix_append p s
  simp [this]

theorem arrowOf_eq (u : Bool) : arrowOf u = ' ' :: (arrowOf u).tail := by cases u <;> rfl

theorem readDotLine_line (u : Bool) (e : Edge) (h1 : VName e.1) (h2 : VName e.2) :
    readDotLine u ([' ', ' ', ' ', ' '] ++ e.1 ++ arrowOf u ++ e.2) = some e := by
  unfold readDotLine
  rw [List.append_assoc, List.append_assoc, stripPre_append]
  simp only
  have hs := splitFirst_found ' ' e.1 ((arrowOf u).tail ++ e.2) [] (fun hm => (h1.2 _ hm).2.2 rfl)
  simp only [List.reverse_nil, List.nil_append] at hs
  have e1 : e.1 ++ (arrowOf u ++ e.2) = e.1 ++ ' ' :: ((arrowOf u).tail ++ e.2) := by
    conv => lhs; rw [arrowOf_eq u]
    simp
  rw [e1, hs]
  simp only
  rw [stripPre_append]
  have hb : ' ' ∉ e.2 := fun hm => (h2.2 _ hm).2.2 rfl
  simp [h1.1, h2.1, hb]

theorem dotLine_eq (u : Bool) (e : Edge) : dotLine u e = ([' ', ' ', ' ', ' '] ++ e.1 ++ arrowOf u ++ e.2) ++ ['\n'] := by
  simp [dotLine]

def dotBody (u : Bool) (e : Edge) : List Char := [' ', ' ', ' ', ' '] ++ e.1 ++ arrowOf u ++ e.2

def dotBodies (u : Bool) (es : List Edge) : List (List Char) := dotHeader u :: (es.map (dotBody u) ++ [['}']])

theorem dotText_eq (u : Bool) (es : List Edge) : dotText u es = (dotBodies u es).flatMap (· ++ ['\n']) := by
  have e1 : es.flatMap (dotLine u) = es.flatMap (fun e => dotBody u e ++ ['\n']) := by
    congr 1
  simp only [dotText, dotBodies, List.flatMap_cons, List.flatMap_append, List.flatMap_map, List.flatMap_nil,
    List.append_nil, List.append_assoc, e1]
  rfl

/-- the `--dot` form is read back exactly: orientation and edges -/
theorem readDot_dotText (u : Bool) (es : List Edge) (h : ∀ e ∈ es, VName e.1 ∧ VName e.2) :
    readDot (dotText u es) = some (u, es) := by
  have hnl : ∀ l ∈ dotBodies u es, '\n' ∉ l := by
    intro l hl
    simp only [dotBodies, List.mem_cons, List.mem_append, List.mem_map, List.not_mem_nil, or_false] at hl
    rcases hl with rfl | ⟨e, he, rfl⟩ | rfl
    · cases u <;> decide
    · intro hm
      simp only [dotBody, List.mem_append, List.mem_cons, List.not_mem_nil, or_false] at hm
      rcases hm with ((hm | hm) | hm) | hm
      · rcases hm with hm | hm | hm | hm <;> exact absurd hm (by decide)
      · exact ((h e he).1.2 _ hm).2.1 rfl
      · cases u <;> (revert hm; decide)
      · exact ((h e he).2.2 _ hm).2.1 rfl
    · decide
  have hsplit := splitAcc_segs '\n' (dotBodies u es) [] hnl
  simp only [List.append_nil, splitAcc, List.reverse_nil] at hsplit
  unfold readDot
  rw [dotText_eq, hsplit]
  unfold dotBodies
  simp only [List.cons_append]
  have hhead : (if dotHeader u = dotHeader true then some true else if dotHeader u = dotHeader false then some false else none) = some u := by
    cases u <;> decide
  rw [hhead]
  simp only
  generalize hN : es.map (dotBody u) = N
  have hlen : (N ++ [['}']] ++ [[]]).length = N.length + 2 := by simp
  have htake : (N ++ [['}']] ++ [[]]).take ((N ++ [['}']] ++ [[]]).length - 2) = N := by
    rw [hlen, Nat.add_sub_cancel, List.append_assoc, List.take_left']; rfl
  have hdrop : (N ++ [['}']] ++ [[]]).drop ((N ++ [['}']] ++ [[]]).length - 2) = [['}'], []] := by
    rw [hlen, Nat.add_sub_cancel, List.append_assoc, List.drop_left']
    · rfl
    · rfl
  rw [if_neg (by rw [hlen]; omega), hdrop, htake]
  simp only [ne_eq, not_true_eq_false, ite_false]
  rw [← hN, List.map_map]
  have := allSome_map (readDotLine u ∘ dotBody u) id es
    (fun e he => readDotLine_line u e (h e he).1 (h e he).2)
  rw [this]; simp

end Rsbdd.Gen.GraphText
