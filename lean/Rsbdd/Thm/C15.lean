/-
C15 — n_queens_gen emits a formula whose models are exactly the n-queens solutions.

`Model/Gen/Queens.lean` mirrors the six loops of the generator (after the `fix:` commit
that does the index arithmetic in `usize`).

PROVED, for every n:
 * `sem_formula_iff`: the emitted formula holds under σ iff every emitted constraint's count
   of true cells compares as written (`<= 1` / `= 1`) — the formula means its constraints;
 * `constraints_count`: there are 6n − 2 constraints (n ≥ 1);
 * `rows_cells` / `cols_cells`: the row / column lists are exactly the cells of row i /
   column i, so "exactly one queen per row and per column" is emitted literally;
 * `cells_in_range`: every variable index is < n·n — no variable outside v_0 … v_(n²−1), and
   no arithmetic wrap-around in `usize`.

FULL STATEMENT (not proved):
  theorem queens_correct (n) (hn : 1 ≤ n) : ∀ σ, Sem (formula n) ∅ σ ↔ NQueens n σ
The missing part is the diagonal geometry (each pair of distinct cells on a common
(anti-)diagonal lies together in exactly one emitted list).  The correspondence run decides
it: exact model-set equality over all 2^(n²) boards for n ≤ 4, every solution satisfies the
formula for n ≤ 8, every attacking pair of cells is covered by an emitted list for n ≤ 12,
and the real solver lists exactly the solutions for n ≤ 6.
-/
import Rsbdd.Proofs.GenSem
import Rsbdd.Model.Gen.Queens

namespace Rsbdd.C15
open BDD Gen.Queens

theorem sem_formula_iff (n : Nat) (σ : Asg) :
    Sem (formula n) FEnv.empty σ ↔ ∀ c ∈ constraints n, c.op.sem (trueCount c.cells σ) c.bound := by
  unfold formula
  have : (constraints n).foldr (fun c acc => Formula.bin .and c.toFormula acc) .true_ =
      ((constraints n).map Constraint.toFormula).foldr (fun f acc => .bin .and f acc) .true_ := by
    induction constraints n with
    | nil => rfl
    | cons c cs ih => simp [ih]
  rw [this, sem_conj]
  simp only [List.mem_map, forall_exists_index, and_imp, forall_apply_eq_imp_iff₂, Constraint.toFormula,
    sem_cntConst_vars]

theorem constraints_count (n : Nat) (hn : 1 ≤ n) : (constraints n).length = 6 * n - 2 := by
  simp [constraints, diag1a, diag1b, diag2a, diag2b, rows, cols]; omega

/-- the i-th row constraint lists exactly the cells `i*n + 0 … i*n + (n-1)` with `= 1` -/
theorem rows_cells (n i : Nat) (hi : i < n) :
    (rows n)[i]? = some ⟨(List.range n).map (fun j => j + i * n), .exactly, 1⟩ := by
  simp [rows, hi]

/-- the i-th column constraint lists exactly the cells `0*n + i … (n-1)*n + i` with `= 1` -/
theorem cols_cells (n i : Nat) (hi : i < n) :
    (cols n)[i]? = some ⟨(List.range n).map (fun j => i + j * n), .exactly, 1⟩ := by
  simp [cols, hi]


theorem cell_lt {n r c : Nat} (hr : r < n) (hc : c < n) : r * n + c < n * n := by
  have h1 : (r + 1) * n ≤ n * n := Nat.mul_le_mul_right n hr
  have h2 : (r + 1) * n = r * n + n := Nat.succ_mul r n
  omega

/-- every variable the generator mentions is one of `v_0 … v_(n²−1)` -/
theorem cells_in_range (n : Nat) : ∀ c ∈ constraints n, ∀ k ∈ c.cells, k < n * n := by
  intro c hc k hk
  simp only [constraints, List.mem_append] at hc
  rcases hc with ((((hc | hc) | hc) | hc) | hc) | hc
  · -- i + j*(n+1) = j*n + (i+j)
    simp only [diag1a, List.mem_map, List.mem_range] at hc
    obtain ⟨i, hi, rfl⟩ := hc
    simp only [List.mem_map, List.mem_range] at hk
    obtain ⟨j, hj, rfl⟩ := hk
    have := cell_lt (n := n) (r := j) (c := i + j) (by omega) (by omega)
    rw [Nat.mul_succ]; omega
  · -- i*n + j*(n+1) = (i+j)*n + j
    simp only [diag1b, List.mem_map] at hc
    obtain ⟨i, hi, rfl⟩ := hc
    have hi' : i < n := by
      have := List.mem_of_mem_drop hi; simpa using this
    simp only [List.mem_map, List.mem_range] at hk
    obtain ⟨j, hj, rfl⟩ := hk
    have := cell_lt (n := n) (r := i + j) (c := j) (by omega) (by omega)
    rw [Nat.mul_succ, Nat.add_mul] at *; omega
  · -- i + j*(n-1) = j*n + (i-j), j ≤ i
    simp only [diag2a, List.mem_map, List.mem_range] at hc
    obtain ⟨i, hi, rfl⟩ := hc
    simp only [List.mem_map, List.mem_range] at hk
    obtain ⟨j, hj, rfl⟩ := hk
    have := cell_lt (n := n) (r := j) (c := i - j) (by omega) (by omega)
    have h2 : j * (n - 1) + j = j * n := by
      rw [← Nat.mul_succ]; congr 1; omega
    omega
  · -- n*(n-j) - (i-j) < n*n
    simp only [diag2b, List.mem_map] at hc
    obtain ⟨i, hi, rfl⟩ := hc
    have hi' : i < n := by
      have := List.mem_of_mem_drop hi; simpa using this
    simp only [List.mem_map, List.mem_range] at hk
    obtain ⟨j, hj, rfl⟩ := hk
    have h1 : n * (n - j) ≤ n * n := Nat.mul_le_mul_left n (Nat.sub_le n j)
    have h2 : 0 < n * (n - j) := Nat.mul_pos (by omega) (by omega)
    omega
  · simp only [rows, List.mem_map, List.mem_range] at hc
    obtain ⟨i, hi, rfl⟩ := hc
    simp only [List.mem_map, List.mem_range] at hk
    obtain ⟨j, hj, rfl⟩ := hk
    have := cell_lt hi hj; omega
  · simp only [cols, List.mem_map, List.mem_range] at hc
    obtain ⟨i, hi, rfl⟩ := hc
    simp only [List.mem_map, List.mem_range] at hk
    obtain ⟨j, hj, rfl⟩ := hk
    have := cell_lt hj hi; omega

-- non-vacuity: the 2-queens formula (which is unsatisfiable) and its first constraint
example : (constraints 2).length = 10 := by decide
example : (constraints 4).head? = some ⟨[0, 5, 10, 15], .atMost, 1⟩ := by decide

end Rsbdd.C15
