/-
C15 — n_queens_gen emits a formula whose models are exactly the n-queens solutions.

`Model/Gen/Queens.lean` mirrors the six loops of the generator (after the `fix:` commit
that does the index arithmetic in `usize`).

PROVED, for every n:
 * `sem_formula_iff`: the emitted formula holds under σ iff every emitted constraint's count
   of true cells compares as written (`<= 1` / `= 1`) — the formula means its constraints;
 * `constraints_count`: there are 6n − 2 constraints (n ≥ 1);
 * `rows_cells` / `cols_cells`: the row / column lists are exactly the cells of row i /
   column i, so "exactly one queen per row and per column" is emitted literally;
 * `cells_in_range`: every variable index is < n·n — no variable outside v_0 … v_(n²−1), and
   no arithmetic wrap-around in `usize`.

 * `queens_correct` (the FULL STATEMENT): for every n ≥ 1 and every assignment σ,
   `Sem (formula n) ∅ σ ↔ NQueens n σ` — one queen per row, one per column, no two on a common
   (anti-)diagonal; `queens_correct_bool` is the same against `Puzzles.isNQueens`, the
   executable oracle of the correspondence run (`isNQueens_iff`).  The geometry (each family
   of lists is exactly one half of the diagonals in one direction) is `Proofs/Queens.lean`;
 * `queens_solved`: the evaluator terminates on the emitted formula (no fixed points) and the
   diagram it returns is true exactly on the placements — "solving it with rsbdd lists those
   placements", composed from C01 and, for the printed rows, C10.

What the theorems do not cover is the text: that the bytes the binary writes parse to
`formula n`.  The correspondence run decides that on every generated n (tree equality), and
re-decides the semantic claim on the parsed tree: exact model-set equality over all 2^(n²)
boards for n ≤ 4, every solution satisfies the formula for n ≤ 8, every attacking pair of
cells is covered by an emitted list for n ≤ 12, the real solver lists exactly the solutions
for n ≤ 6.
-/
import Rsbdd.Proofs.GenSem
import Rsbdd.Model.Gen.Queens
import Rsbdd.Proofs.Queens
import Rsbdd.Proofs.GenGood

namespace Rsbdd.C15
open BDD Gen.Queens Puzzles

theorem sem_formula_iff (n : Nat) (σ : Asg) :
    Sem (formula n) FEnv.empty σ ↔ ∀ c ∈ constraints n, c.op.sem (trueCount c.cells σ) c.bound := by
  unfold formula
  have : (constraints n).foldr (fun c acc => Formula.bin .and c.toFormula acc) .true_ =
      ((constraints n).map Constraint.toFormula).foldr (fun f acc => .bin .and f acc) .true_ := by
    induction constraints n with
    | nil => rfl
    | cons c cs ih => simp [ih]
  rw [this, sem_conj]
  simp only [List.mem_map, forall_exists_index, and_imp, forall_apply_eq_imp_iff₂, Constraint.toFormula,
    sem_cntConst_vars]

theorem constraints_count (n : Nat) (hn : 1 ≤ n) : (constraints n).length = 6 * n - 2 := by
  simp [constraints, diag1a, diag1b, diag2a, diag2b, rows, cols]; omega

/-- the i-th row constraint lists exactly the cells `i*n + 0 … i*n + (n-1)` with `= 1` -/
theorem rows_cells (n i : Nat) (hi : i < n) :
    (rows n)[i]? = some ⟨(List.range n).map (fun j => j + i * n), .exactly, 1⟩ := by
  simp [rows, hi]

/-- the i-th column constraint lists exactly the cells `0*n + i … (n-1)*n + i` with `= 1` -/
theorem cols_cells (n i : Nat) (hi : i < n) :
    (cols n)[i]? = some ⟨(List.range n).map (fun j => i + j * n), .exactly, 1⟩ := by
  simp [cols, hi]


theorem cell_lt {n r c : Nat} (hr : r < n) (hc : c < n) : r * n + c < n * n := by
  have h1 : (r + 1) * n ≤ n * n := Nat.mul_le_mul_right n hr
  have h2 : (r + 1) * n = r * n + n := Nat.succ_mul r n
  omega

/-- every variable the generator mentions is one of `v_0 … v_(n²−1)` -/
theorem cells_in_range (n : Nat) : ∀ c ∈ constraints n, ∀ k ∈ c.cells, k < n * n := by
  intro c hc k hk
  simp only [constraints, List.mem_append] at hc
  rcases hc with ((((hc | hc) | hc) | hc) | hc) | hc
  · -- i + j*(n+1) = j*n + (i+j)
    simp only [diag1a, List.mem_map, List.mem_range] at hc
    obtain ⟨i, hi, rfl⟩ := hc
    simp only [List.mem_map, List.mem_range] at hk
    obtain ⟨j, hj, rfl⟩ := hk
    have := cell_lt (n := n) (r := j) (c := i + j) (by omega) (by omega)
    rw [Nat.mul_succ]; omega
  · -- i*n + j*(n+1) = (i+j)*n + j
    simp only [diag1b, List.mem_map] at hc
    obtain ⟨i, hi, rfl⟩ := hc
    have hi' : i < n := by
      have := List.mem_of_mem_drop hi; simpa using this
    simp only [List.mem_map, List.mem_range] at hk
    obtain ⟨j, hj, rfl⟩ := hk
    have := cell_lt (n := n) (r := i + j) (c := j) (by omega) (by omega)
    rw [Nat.mul_succ, Nat.add_mul] at *; omega
  · -- i + j*(n-1) = j*n + (i-j), j ≤ i
    simp only [diag2a, List.mem_map, List.mem_range] at hc
    obtain ⟨i, hi, rfl⟩ := hc
    simp only [List.mem_map, List.mem_range] at hk
    obtain ⟨j, hj, rfl⟩ := hk
    have := cell_lt (n := n) (r := j) (c := i - j) (by omega) (by omega)
    have h2 : j * (n - 1) + j = j * n := by
      rw [← Nat.mul_succ]; congr 1; omega
    omega
  · -- n*(n-j) - (i-j) < n*n
    simp only [diag2b, List.mem_map] at hc
    obtain ⟨i, hi, rfl⟩ := hc
    have hi' : i < n := by
      have := List.mem_of_mem_drop hi; simpa using this
    simp only [List.mem_map, List.mem_range] at hk
    obtain ⟨j, hj, rfl⟩ := hk
    have h1 : n * (n - j) ≤ n * n := Nat.mul_le_mul_left n (Nat.sub_le n j)
    have h2 : 0 < n * (n - j) := Nat.mul_pos (by omega) (by omega)
    omega
  · simp only [rows, List.mem_map, List.mem_range] at hc
    obtain ⟨i, hi, rfl⟩ := hc
    simp only [List.mem_map, List.mem_range] at hk
    obtain ⟨j, hj, rfl⟩ := hk
    have := cell_lt hi hj; omega
  · simp only [cols, List.mem_map, List.mem_range] at hc
    obtain ⟨i, hi, rfl⟩ := hc
    simp only [List.mem_map, List.mem_range] at hk
    obtain ⟨j, hj, rfl⟩ := hk
    have := cell_lt hj hi; omega

/-- the emitted constraints, family by family -/
theorem constraints_iff (n : Nat) (σ : Asg) :
    (∀ c ∈ constraints n, c.op.sem (trueCount c.cells σ) c.bound) ↔
      (∀ i, i < n → trueCount ((List.range (n - i)).map (fun j => i + j * (n + 1))) σ ≤ 1) ∧
      (∀ i, 1 ≤ i → i < n → trueCount ((List.range (n - i)).map (fun j => i * n + j * (n + 1))) σ ≤ 1) ∧
      (∀ i, i < n → trueCount ((List.range (i + 1)).map (fun j => i + j * (n - 1))) σ ≤ 1) ∧
      (∀ i, 1 ≤ i → i < n → trueCount ((List.range i).map (fun j => n * (n - j) - (i - j))) σ ≤ 1) ∧
      (∀ i, i < n → trueCount ((List.range n).map (fun j => j + i * n)) σ = 1) ∧
      (∀ i, i < n → trueCount ((List.range n).map (fun j => i + j * n)) σ = 1) := by
  simp only [constraints, List.mem_append, or_imp, forall_and, diag1a, diag1b, diag2a, diag2b, rows, cols,
    List.mem_map, List.mem_range, mem_drop_range, forall_exists_index, and_imp, forall_apply_eq_imp_iff₂,
    CntOp.sem, and_assoc]
  constructor
  · rintro ⟨a, b, c, d, e, f⟩
    exact ⟨a, fun i h1 h2 => b _ i h1 h2 rfl, c, fun i h1 h2 => d _ i h1 h2 rfl, e, f⟩
  · rintro ⟨a, b, c, d, e, f⟩
    refine ⟨a, ?_, c, ?_, e, f⟩
    · rintro x i h1 h2 rfl; exact b i h1 h2
    · rintro x i h1 h2 rfl; exact d i h1 h2


theorem queens_correct (n : Nat) (hn : 1 ≤ n) (σ : Asg) :
    Sem (formula n) FEnv.empty σ ↔ NQueens n σ := by
  rw [sem_formula_iff, constraints_iff]
  have rowfun : ∀ i, (fun j => j + i * n) = (fun c => i * n + c) := fun i => funext fun j => Nat.add_comm _ _
  have colfun : ∀ i, (fun j => i + j * n) = (fun r => r * n + i) := fun i => funext fun j => Nat.add_comm _ _
  constructor
  · rintro ⟨h1a, h1b, h2a, h2b, hr, hc⟩
    refine ⟨fun r h => by rw [← rowfun]; exact hr r h, fun c h => by rw [← colfun]; exact hc c h, ?_⟩
    intro r c r' c' hr_ hc_ hr'_ hc'_ hne qa qb
    have hrr : r ≠ r' ∨ (r = r' ∧ c ≠ c') := by omega
    constructor
    · -- main diagonals: column − row is constant
      intro hd
      have hrne : r ≠ r' := by omega
      by_cases hcr : r ≤ c
      · -- upper half, list i = c − r, positions r and r'
        have h := h1a (c - r) (by omega)
        refine no_two h (a := r) (b := r') (by omega) (by omega) hrne ?_ ?_
        · show σ (c - r + r * (n + 1)) = true
          rw [d1a_cell]; rw [show c - r + r = c by omega]; exact qa
        · show σ (c - r + r' * (n + 1)) = true
          rw [d1a_cell]; rw [show c - r + r' = c' by omega]; exact qb
      · -- lower half, list i = r − c, positions c and c'
        have h := h1b (r - c) (by omega) (by omega)
        refine no_two h (a := c) (b := c') (by omega) (by omega) (by omega) ?_ ?_
        · show σ ((r - c) * n + c * (n + 1)) = true
          rw [d1b_cell]; rw [show r - c + c = r by omega]; exact qa
        · show σ ((r - c) * n + c' * (n + 1)) = true
          rw [d1b_cell]; rw [show r - c + c' = r' by omega]; exact qb
    · -- anti-diagonals: row + column is constant
      intro hd
      have hrne : r ≠ r' := by omega
      by_cases hs : r + c < n
      · have h := h2a (r + c) hs
        refine no_two h (a := r) (b := r') (by omega) (by omega) hrne ?_ ?_
        · show σ (r + c + r * (n - 1)) = true
          rw [d2a_cell n (r + c) r (by omega) hn]; rw [show r + c - r = c by omega]; exact qa
        · show σ (r + c + r' * (n - 1)) = true
          rw [d2a_cell n (r + c) r' (by omega) hn]; rw [show r + c - r' = c' by omega]; exact qb
      · have h := h2b (2 * n - 1 - (r + c)) (by omega) (by omega)
        refine no_two h (a := n - 1 - r) (b := n - 1 - r') (by omega) (by omega) (by omega) ?_ ?_
        · show σ (n * (n - (n - 1 - r)) - (2 * n - 1 - (r + c) - (n - 1 - r))) = true
          rw [d2b_cell n _ _ (by omega) (by omega)]
          rw [show n - 1 - (n - 1 - r) = r by omega, show n - (2 * n - 1 - (r + c)) + (n - 1 - r) = c by omega]
          exact qa
        · show σ (n * (n - (n - 1 - r')) - (2 * n - 1 - (r + c) - (n - 1 - r'))) = true
          rw [d2b_cell n _ _ (by omega) (by omega)]
          rw [show n - 1 - (n - 1 - r') = r' by omega, show n - (2 * n - 1 - (r + c)) + (n - 1 - r') = c' by omega]
          exact qb
  · rintro ⟨hr, hc, hd⟩
    refine ⟨?_, ?_, ?_, ?_, fun i h => by rw [rowfun]; exact hr i h, fun i h => by rw [colfun]; exact hc i h⟩
    · intro i hi
      rw [trueCount_range_le_one]
      rintro a b hab hb ⟨qa, qb⟩
      rw [d1a_cell] at qa qb
      have := hd a (i + a) b (i + b) (by omega) (by omega) (by omega) (by omega) (by omega) qa qb
      omega
    · intro i hi1 hi
      rw [trueCount_range_le_one]
      rintro a b hab hb ⟨qa, qb⟩
      rw [d1b_cell] at qa qb
      have := hd (i + a) a (i + b) b (by omega) (by omega) (by omega) (by omega) (by omega) qa qb
      omega
    · intro i hi
      rw [trueCount_range_le_one]
      rintro a b hab hb ⟨qa, qb⟩
      rw [d2a_cell n i a (by omega) hn] at qa
      rw [d2a_cell n i b (by omega) hn] at qb
      have := hd a (i - a) b (i - b) (by omega) (by omega) (by omega) (by omega) (by omega) qa qb
      omega
    · intro i hi1 hi
      rw [trueCount_range_le_one]
      rintro a b hab hb ⟨qa, qb⟩
      rw [d2b_cell n i a (by omega) hi] at qa
      rw [d2b_cell n i b (by omega) hi] at qb
      have := hd (n - 1 - a) (n - i + a) (n - 1 - b) (n - i + b) (by omega) (by omega) (by omega) (by omega) (by omega) qa qb
      omega

/-- the statement of C15 against the executable specification the correspondence run uses -/
theorem queens_correct_bool (n : Nat) (hn : 1 ≤ n) (σ : Asg) :
    Sem (formula n) FEnv.empty σ ↔ isNQueens n σ = true :=
  (queens_correct n hn σ).trans (isNQueens_iff n σ).symm

theorem formula_map (n : Nat) : formula n =
    ((constraints n).map Constraint.toFormula).foldr (fun f acc => .bin .and f acc) .true_ := by
  unfold formula
  induction constraints n with
  | nil => rfl
  | cons c cs ih => simp [ih]

theorem formula_good (n : Nat) : GoodF (formula n) ∧ C01.NoFix (formula n) := by
  rw [formula_map]
  constructor
  · apply goodF_conj
    intro f hf
    simp only [List.mem_map] at hf
    obtain ⟨c, _, rfl⟩ := hf
    simp only [Constraint.toFormula, GoodF]
    exact goodFL_map_var _
  · apply noFix_conj
    intro f hf
    simp only [List.mem_map] at hf
    obtain ⟨c, _, rfl⟩ := hf
    simp only [Constraint.toFormula, C01.NoFix]
    exact noFixL_map_var _

/-- "solving it with rsbdd lists those placements": the evaluator returns on the emitted formula,
and the diagram it returns is true exactly on the placements of n non-attacking queens -/
theorem queens_solved (n : Nat) (hn : 1 ≤ n) (iters : Nat) :
    ∃ b, Formula.evalF iters (Formula.depth (formula n)) (formula n) = some b ∧ ROBDD b ∧
      ∀ σ, (eval b σ = true ↔ NQueens n σ) := by
  obtain ⟨b, hb, hr, hs⟩ := solved (formula n) (formula_good n).1 (formula_good n).2 iters
  exact ⟨b, hb, hr, fun σ => (hs σ).trans (queens_correct n hn σ)⟩

-- non-vacuity: the 2-queens formula (which is unsatisfiable) and its first constraint
example : (constraints 2).length = 10 := by decide
example : (constraints 4).head? = some ⟨[0, 5, 10, 15], .atMost, 1⟩ := by decide

-- the specification is satisfiable and refutable: a solution and a non-solution of 4 queens
example : isNQueens 4 (fun k => k ∈ [1, 7, 8, 14]) = true := by decide
example : isNQueens 4 (fun k => k ∈ [0, 5, 10, 15]) = false := by decide

end Rsbdd.C15
