/-
C17, the clause "whitespace in the puzzle text is ignored", with the removal of white space inside the model
(`Sudoku.strip`, `char::is_whitespace` as the table of the 25 White_Space code points) instead of in the harness:
for the text as it is given, `sudoku_gen | rsbdd` accepts the output, and the diagram is true exactly on the
completed grids that keep the givens of the text without its white space (`sudoku_raw_default`); two texts that
differ only in white space give the same bytes (`whitespace_ignored`), wherever the white space stands
(`strip_insert`).
-/
import Rsbdd.Thm.C17D

namespace Rsbdd.C17
open Rsbdd Rsbdd.Gen Rsbdd.Gen.Sudoku Rsbdd.BDD Rsbdd.Formula Rsbdd.Parser

theorem strip_append (a b : List Char) : strip (a ++ b) = strip a ++ strip b := by
  unfold strip; exact List.filter_append ..

/-- a run of white space contributes nothing -/
theorem strip_ws (ws : List Char) (h : ∀ c ∈ ws, isWhitespace c = true) : strip ws = [] := by
  unfold strip
  rw [List.filter_eq_nil_iff]
  intro c hc
  simp [h c hc]

/-- white space may stand anywhere in the text: before, between and after the symbols -/
theorem strip_insert (a ws b : List Char) (h : ∀ c ∈ ws, isWhitespace c = true) :
    strip (a ++ ws ++ b) = strip (a ++ b) := by
  rw [strip_append, strip_append, strip_ws ws h, strip_append, List.append_nil]

/-- nothing but white space is removed: a text without white space is read as it stands -/
theorem strip_id (t : List Char) (h : ∀ c ∈ t, isWhitespace c = false) : strip t = t := by
  unfold strip
  rw [List.filter_eq_self]
  intro c hc
  simp [h c hc]

theorem strip_idem (t : List Char) : strip (strip t) = strip t := by
  unfold strip; rw [List.filter_filter]; congr 1; funext c; simp

/-- what is kept is in the order of the text and is exactly its non-white-space characters -/
theorem mem_strip (t : List Char) (c : Char) : c ∈ strip t ↔ c ∈ t ∧ isWhitespace c = false := by
  unfold strip; simp [List.mem_filter]

/-- two puzzle texts that differ only in white space give the same output, byte for byte -/
theorem whitespace_ignored (version : String) (root : Nat) (t1 t2 : List Char) (h : strip t1 = strip t2) :
    textOfRaw version root t1 = textOfRaw version root t2 := by
  unfold textOfRaw; rw [h]

/-- the line feed, the carriage return, the tab and the blank are white space; the digits, the full stop and the
other usual blank symbols are not (the table is decided entry by entry) -/
theorem usual_layout : isWhitespace '\n' = true ∧ isWhitespace '\r' = true ∧ isWhitespace '\t' = true ∧
    isWhitespace ' ' = true ∧ isWhitespace (Char.ofNat 0x3000) = true ∧ isWhitespace (Char.ofNat 0xA0) = true ∧
    isWhitespace '.' = false ∧ isWhitespace '0' = false ∧ isWhitespace '9' = false ∧ isWhitespace '_' = false ∧
    isWhitespace (Char.ofNat 0xFEFF) = false ∧ isWhitespace (Char.ofNat 0x200B) = false := by
  decide

/-- an ASCII digit is never white space, so stripping never loses a given -/
theorem digit_not_ws (c : Char) (h : c.isDigit = true) : isWhitespace c = false := by
  have h1 : 48 ≤ c.toNat ∧ c.toNat ≤ 57 := by
    simp [Char.isDigit] at h
    have a := h.1; have b := h.2
    constructor
    · exact a
    · exact b
  unfold isWhitespace whitespaceTable
  simp only [List.contains_eq_mem, List.mem_cons, List.not_mem_nil, or_false, decide_eq_false_iff_not]
  omega

/-- C17 for the text as it is given: with the white space removed by the model's own `strip`, the output is accepted by
the solver under its default order, and the diagram is true exactly on the completed grids that keep the givens -/
theorem sudoku_raw_default (k : Char → Cls) (version : String) (hv : '"' ∉ version.toList) (root : Nat)
    (raw : List Char)
    (hscope : ∀ c d, c < root * root * (root * root) → (digitsOf (strip raw))[c]? = some (some d) → 1 ≤ d ∧ d ≤ root * root)
    (iters : Nat) :
    ∃ ts f b, tokenize (textCh k version root (strip raw)) [] = some ts ∧
      (textCh k version root (strip raw)).map (·.c) = textOfRaw version root raw ∧
      parseFormula ts = some f ∧ evalF iters (depth f) f = some b ∧ ROBDD b ∧
      ∀ (σ : Asg) (ν : String → Bool), (∀ name j, Token.var name j ∈ ts → σ j = ν name) →
        (eval b σ = true ↔ ∃ g, ValidGrid root (digitsOf (strip raw)) g ∧
          ∀ c d0, c < root * root * (root * root) → d0 < root * root → (ν (varStr c (d0 + 1)) = true ↔ g c = d0 + 1)) := by
  obtain ⟨ts, f, b, h1, h2, h3, h4, h5⟩ := sudoku_text_default k version hv root (strip raw) hscope iters
  exact ⟨ts, f, b, h1, textCh_chars k version root (strip raw), h2, h3, h4, h5⟩

/-- non-vacuity: a 4 x 4 puzzle laid out in rows with blanks, line feeds and carriage returns is the puzzle without
them, and its givens are in scope -/
example : strip "1. .4\r\n .. ..\n\t3. .2 \n".toList = "1..4....3..2".toList := by decide

end Rsbdd.C17
