/-
C15, end to end for the default variable order (`n_queens_gen | rsbdd`): `queens_text_default` — for every
n ≥ 1 and every version string, the text the generator writes is accepted by the tokenizer and the parser
under the default numbering of the names, the evaluator returns, and the diagram it returns is true exactly
on the placements of n non-attacking queens, an assignment of the solver's variables being read through
the names `v_k` (the hypothesis on σ and ν says: σ gives the variable the tokenizer created for a name the
value ν gives the name).  Obtained from `queens_text_tokens` (canonical numbering) by the lock-step of two
tokenizations (`tokenize_lockstep`), the equivariance of the grammar (`sub_rename`) and of the meaning
(`sem_rename`).
-/
import Rsbdd.Proofs.QueensDefault
namespace Rsbdd.C15
open Parser Gen.Queens C11 Grammar Formula BDD

/-- C15 for the way the tool is used (`n_queens_gen | rsbdd`, default variable order): the text is accepted,
and the diagram the solver returns for it is true exactly on the placements of n non-attacking queens —
an assignment of the solver's variables being read through the names `v_k` -/
theorem queens_text_default (version : String) (hv : '"' ∉ version.toList) (n : Nat) (hn : 1 ≤ n) (iters : Nat) :
    ∃ ts f b, tokenize (chs (text version n)) [] = some ts ∧ parseFormula ts = some f ∧
      evalF iters (depth f) f = some b ∧ ROBDD b ∧
      ∀ (σ : Asg) (ν : String → Bool), (∀ name j, Token.var name j ∈ ts → σ j = ν name) →
        (eval b σ = true ↔ NQueens n (fun k => ν (cellStr k))) := by
  have ht1 := queens_text_tokens version hv n
  -- the default order also yields tokens
  have hsome : (tokenize (chs (text version n)) []).isSome = true := by
    have h1 : (tokenize (chs (text version n)) (cellOrdering n)).isSome = true := by rw [ht1]; rfl
    unfold tokenize at h1 ⊢
    simp only [Option.isSome_map] at h1 ⊢
    exact toTokens_isSome_indep _ _ _ h1
  obtain ⟨ts2, ht2⟩ := Option.isSome_iff_exists.mp hsome
  generalize hcanon : ((constraints n).flatMap lineToks ++ [Token.true_]) ++ [Token.eof] = ts1 at ht1
  have ho1 := cellOrdering_ok n
  have ho2 : OrderingOk ([] : List (String × Nat)) := by intro p hp; simp at hp
  have hinj1 := tokenize_ids_injective ho1 ht1
  have hinj2 := tokenize_ids_injective ho2 ht2
  obtain ⟨π, hπ⟩ := exists_bij_of_pairs (idPairs ts1 ts2) (by
    rintro ⟨i, j⟩ hp ⟨i', j'⟩ hq
    obtain ⟨m, a1, a2⟩ := mem_idPairs.mp hp
    obtain ⟨m', b1, b2⟩ := mem_idPairs.mp hq
    exact (hinj1 m i m' i' a1 b1).symm.trans (hinj2 m j m' j' a2 b2))
  have hπ' : ∀ m i j, Token.var m i ∈ ts1 → Token.var m j ∈ ts2 → π.f i = j :=
    fun m i j a b => hπ (i, j) (mem_idPairs.mpr ⟨m, a, b⟩)
  have hts : ts2 = ts1.map (renTok π.f) := map_renTok_of_lockstep π.f ts1 ts2 (tokenize_lockstep ht1 ht2) hπ'
  have hsub := sub_lines (constraints n) (constraints_shape n)
  have hd2 : Derives ts2 (renameF π.f (formula n)) := by
    refine ⟨((constraints n).flatMap lineToks ++ [Token.true_]).map (renTok π.f), ?_, sub_rename π.f hsub⟩
    rw [hts, ← hcanon]; simp [renTok]
  have hp2 := C08.parse_complete hd2
  have hgood := formula_good n
  have hnl : NoLeaf (formula n) := sub_noLeaf hsub
  have hnf2 : C01.NoFix (renameF π.f (formula n)) := noFix_rename π.f _ hgood.2
  have hnl2 : NoLeaf (renameF π.f (formula n)) := sub_noLeaf (sub_rename π.f hsub)
  have hg2 : GoodF (renameF π.f (formula n)) := goodF_plain _ hnf2 hnl2
  obtain ⟨b, hb, hr, hs⟩ := solved (renameF π.f (formula n)) hg2 hnf2 iters
  refine ⟨ts2, _, b, ht2, hp2, hb, hr, ?_⟩
  intro σ ν hσ
  rw [hs σ]
  have sr := sem_rename π (formula n) hnl FEnv.empty σ
  rw [trEnv_empty] at sr
  rw [sr, queens_correct n hn]
  apply nqueens_congr
  intro r c hr' hc'
  have hm1 : Token.var (cellStr (r * n + c)) (r * n + c) ∈ ts1 := by
    rw [← hcanon]; simp [cell_in_tokens n r c hr' hc']
  have hm2 : Token.var (cellStr (r * n + c)) (π.f (r * n + c)) ∈ ts2 := by
    rw [hts]; exact List.mem_map.mpr ⟨_, hm1, by simp [renTok]⟩
  exact hσ _ _ hm2

end Rsbdd.C15
