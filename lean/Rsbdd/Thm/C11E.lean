/-
C11, last sentence: `table_order_iso` (orderings that agree on the relative order of the text's
variables give the identical table) and `export_reimport` (the `-r` ordering fed back with `-o`).
What is not proved is that reading the exported *text* back yields name k ↦ id k (`readOrdering` of
the printed names); the correspondence run does the round trip through the real binary.
-/
import Rsbdd.Proofs.RenameTable
import Rsbdd.Thm.C09T

namespace Rsbdd.C11
open BDD Formula Parser Grammar Cli

/-- Two orderings that number the text's variables in the same relative order give the identical
table: same variable list (`-r`), same header, same rows (`-t`, any filter) and same `-v` lines. -/
theorem table_order_iso {cs : List Ch} {o1 o2 : List (String × Nat)} {ts1 ts2 : List Token}
    {p1 p2 : ParsedInfo} {b1 b2 : BDD} {i1 u1 i2 u2 : Nat}
    (ho1 : OrderingOk o1) (ho2 : OrderingOk o2)
    (ht1 : tokenize cs o1 = some ts1) (ht2 : tokenize cs o2 = some ts2)
    (hp1 : newWithEnv ts1 = some p1) (hp2 : newWithEnv ts2 = some p2)
    (hg1 : GoodF p1.formula) (hg2 : GoodF p2.formula)
    (he1 : evalF i1 u1 p1.formula = some b1) (he2 : evalF i2 u2 p2.formula = some b2)
    (hiso : ∀ n m i i' j j', Token.var n i ∈ ts1 → Token.var m i' ∈ ts1 → Token.var n j ∈ ts2 → Token.var m j' ∈ ts2 →
      (i < i' ↔ j < j')) :
    p2.vars.map (·.1) = p1.vars.map (·.1) ∧
    p2.freeVars.map (·.1) = p1.freeVars.map (·.1) ∧
    (∀ flt, tableRows (p2.freeVars.map (·.2)) flt b2 ((p2.freeVars.map (·.2)).map (fun _ => Cell.any)) =
            tableRows (p1.freeVars.map (·.2)) flt b1 ((p1.freeVars.map (·.2)).map (fun _ => Cell.any))) ∧
    (∀ names, trueVarRows (p2.freeVars.map (·.2)) names b2 ((p2.freeVars.map (·.2)).map (fun _ => Cell.any)) =
              trueVarRows (p1.freeVars.map (·.2)) names b1 ((p1.freeVars.map (·.2)).map (fun _ => Cell.any))) := by
  have hinj1 := tokenize_ids_injective ho1 ht1
  have hinj2 := tokenize_ids_injective ho2 ht2
  obtain ⟨π, hπ⟩ := exists_bij_of_pairs (idPairs ts1 ts2) (by
    rintro ⟨i, j⟩ hp ⟨i', j'⟩ hq
    obtain ⟨n, a1, a2⟩ := mem_idPairs.mp hp
    obtain ⟨n', c1, c2⟩ := mem_idPairs.mp hq
    exact (hinj1 n i n' i' a1 c1).symm.trans (hinj2 n j n' j' a2 c2))
  have hπ' : ∀ n i j, Token.var n i ∈ ts1 → Token.var n j ∈ ts2 → π.f i = j :=
    fun n i j a b => hπ (i, j) (mem_idPairs.mpr ⟨n, a, b⟩)
  have hpinj : ∀ a b, π.f a = π.f b → a = b := fun a b e => π.inj e
  have hts : ts2 = ts1.map (renTok π.f) := map_renTok_of_lockstep π.f ts1 ts2 (tokenize_lockstep ht1 ht2) hπ'
  -- every id of the first run has a partner
  have hpartner : ∀ n i, Token.var n i ∈ ts1 → Token.var n (π.f i) ∈ ts2 := by
    intro n i h; rw [hts]; exact List.mem_map.mpr ⟨_, h, rfl⟩
  have hmono : ∀ n m i i', Token.var n i ∈ ts1 → Token.var m i' ∈ ts1 → (i < i' ↔ π.f i < π.f i') :=
    fun n m i i' a b => hiso n m i i' _ _ a b (hpartner n i a) (hpartner m i' b)
  -- unfold the two tables
  unfold newWithEnv at hp1 hp2
  cases hf1 : parseFormula ts1 with
  | none => simp [hf1] at hp1
  | some f1 =>
    cases hf2 : parseFormula ts2 with
    | none => simp [hf2] at hp2
    | some f2 =>
      simp only [hf1, hf2, Option.some.injEq] at hp1 hp2
      subst hp1; subst hp2
      simp only at hg1 hg2 he1 he2 ⊢
      obtain ⟨pre, hpre, hsub⟩ := parse_text_sound ht1 hf1
      have hd2 : Derives ts2 (renameF π.f f1) := by
        refine ⟨pre.map (renTok π.f), ?_, sub_rename π.f hsub⟩
        rw [hts, hpre]; simp [renTok]
      have hff : f2 = renameF π.f f1 := by
        have := parseFormula_complete hd2
        rw [hf2] at this; exact Option.some.inj this
      have hnl := sub_noLeaf hsub
      -- the variable lists
      obtain ⟨_, hsubv⟩ := extractVars_spec ts1
      have hvars : sortById (extractVars ts2) = (sortById (extractVars ts1)).map (renPair π.f) := by
        rw [hts, extractVars_rename hpinj]
        apply sortById_rename
        intro x hx y hy
        exact hmono x.1 y.1 x.2 y.2 (hsubv x hx) (hsubv y hy)
      have hfree : (sortById (extractVars ts2)).filter (fun v => varIsFree v.2 f2) =
          ((sortById (extractVars ts1)).filter (fun v => varIsFree v.2 f1)).map (renPair π.f) := by
        rw [hvars, hff, List.filter_map]
        congr 1
        apply List.filter_congr
        intro x _
        simp only [Function.comp, renPair]
        exact varIsFree_rename hpinj x.2 f1
      have hcols : ((sortById (extractVars ts2)).filter (fun v => varIsFree v.2 f2)).map (·.2) =
          (((sortById (extractVars ts1)).filter (fun v => varIsFree v.2 f1)).map (·.2)).map π.f := by
        rw [hfree]; simp [List.map_map, Function.comp_def, renPair]
      -- the diagram
      have hsupp : ∀ z ∈ support b1, ∃ n, Token.var n z ∈ ts1 := by
        intro z hz
        have hfv := ((support_free_aux i1 u1).1 f1 b1 (ordLeaves_of_noLeaf f1 hnl) he1).2 z hz
        obtain ⟨n, hn⟩ := sub_fv_tok z hsub hfv
        exact ⟨n, by rw [hpre]; simp [hn]⟩
      have s1 := C01.evalF_sound i1 u1 f1 hg1 b1 he1
      have s2 := C01.evalF_sound i2 u2 f2 hg2 b2 he2
      have hb : b2 = renameB π.f b1 := by
        apply canonical_from s2.1.1 s2.1.2
        · apply ordFrom_renameB π.f b1 s1.1.1
          · intro u hu w hw h
            obtain ⟨n, hn⟩ := hsupp u hu
            obtain ⟨m, hm⟩ := hsupp w hw
            exact (hmono n m u w hn hm).mp h
          · intro w _; exact Nat.zero_le _
        · exact reduced_renameB hpinj b1 s1.1.2
        · intro σ
          rw [eval_renameB, Bool.eq_iff_iff]
          have sr := sem_rename π f1 hnl FEnv.empty σ
          rw [trEnv_empty, ← hff] at sr
          exact (s2.2 σ).trans (sr.trans (s1.2 _).symm)
      have hblank : ∀ (l : List Nat), (l.map π.f).map (fun _ => Cell.any) = l.map (fun _ => Cell.any) := by
        intro l; simp [List.map_map, Function.comp_def]
      refine ⟨?_, ?_, ?_, ?_⟩
      · rw [hvars]; simp [List.map_map, Function.comp_def, renPair]
      · rw [hfree]; simp [List.map_map, Function.comp_def, renPair]
      · intro flt
        rw [hcols, hb, hblank]
        exact tableRows_rename hpinj _ flt b1 _
      · intro names
        rw [hcols, hb, hblank]
        exact trueVarRows_rename hpinj _ names b1 _


theorem sorted_index_lt {l : List (String × Nat)} (hs : l.Pairwise (fun a b => a.2 < b.2)) {k k' : Nat}
    {x y : String × Nat} (hx : l[k]? = some x) (hy : l[k']? = some y) : (x.2 < y.2 ↔ k < k') := by
  have hk : k < l.length := by
    rcases Nat.lt_or_ge k l.length with h | h
    · exact h
    · rw [List.getElem?_eq_none h] at hx; cases hx
  have hk' : k' < l.length := by
    rcases Nat.lt_or_ge k' l.length with h | h
    · exact h
    · rw [List.getElem?_eq_none h] at hy; cases hy
  rw [List.getElem?_eq_getElem hk] at hx
  rw [List.getElem?_eq_getElem hk'] at hy
  cases hx; cases hy
  have hp := List.pairwise_iff_getElem.mp hs
  constructor
  · intro h
    rcases Nat.lt_trichotomy k k' with h' | h' | h'
    · exact h'
    · subst h'; omega
    · have := hp k' k hk' hk h'; omega
  · intro h; exact hp k k' hk hk' h

/-- C11, last sentence: the ordering exported with `-r` (the variable names in variable order, read back
as an ordering: name k gets id k) reproduces the identical table — variable list, header, rows, `-v` lines -/
theorem export_reimport {cs : List Ch} {o1 : List (String × Nat)} {ts1 ts2 : List Token}
    {p1 p2 : ParsedInfo} {b1 b2 : BDD} {i1 u1 i2 u2 : Nat}
    (ho1 : OrderingOk o1) (ht1 : tokenize cs o1 = some ts1) (hp1 : newWithEnv ts1 = some p1)
    (ht2 : tokenize cs ((p1.vars.map (·.1)).zipIdx) = some ts2) (hp2 : newWithEnv ts2 = some p2)
    (hg1 : GoodF p1.formula) (hg2 : GoodF p2.formula)
    (he1 : evalF i1 u1 p1.formula = some b1) (he2 : evalF i2 u2 p2.formula = some b2) :
    p2.vars.map (·.1) = p1.vars.map (·.1) ∧
    p2.freeVars.map (·.1) = p1.freeVars.map (·.1) ∧
    (∀ flt, tableRows (p2.freeVars.map (·.2)) flt b2 ((p2.freeVars.map (·.2)).map (fun _ => Cell.any)) =
            tableRows (p1.freeVars.map (·.2)) flt b1 ((p1.freeVars.map (·.2)).map (fun _ => Cell.any))) ∧
    (∀ names, trueVarRows (p2.freeVars.map (·.2)) names b2 ((p2.freeVars.map (·.2)).map (fun _ => Cell.any)) =
              trueVarRows (p1.freeVars.map (·.2)) names b1 ((p1.freeVars.map (·.2)).map (fun _ => Cell.any))) := by
  obtain ⟨hsorted, hnodup, hmem⟩ := C09.vars_spec ho1 ht1 hp1
  -- the exported ordering: distinct names, numbered by position
  have hz : ∀ (n : String) (k : Nat), (n, k) ∈ (p1.vars.map (·.1)).zipIdx ↔ (p1.vars.map (·.1))[k]? = some n :=
    fun n k => List.mem_zipIdx_iff_getElem? (x := (n, k))
  have ho2 : OrderingOk ((p1.vars.map (·.1)).zipIdx) := by
    rintro ⟨n, k⟩ hp ⟨m, k'⟩ hq
    have e1 := (hz n k).mp hp
    have e2 := (hz m k').mp hq
    simp only
    constructor
    · rintro rfl
      have hk : k < (p1.vars.map (·.1)).length := by
        rcases Nat.lt_or_ge k (p1.vars.map (·.1)).length with h | h
        · exact h
        · rw [List.getElem?_eq_none h] at e1; cases e1
      have hk' : k' < (p1.vars.map (·.1)).length := by
        rcases Nat.lt_or_ge k' (p1.vars.map (·.1)).length with h | h
        · exact h
        · rw [List.getElem?_eq_none h] at e2; cases e2
      rw [List.getElem?_eq_getElem hk] at e1
      rw [List.getElem?_eq_getElem hk'] at e2
      exact (List.getElem_inj hnodup).mp ((Option.some.inj e1).trans (Option.some.inj e2).symm)
    · rintro rfl
      rw [e1] at e2; exact Option.some.inj e2
  apply table_order_iso ho1 ho2 ht1 ht2 hp1 hp2 hg1 hg2 he1 he2
  intro n m i i' j j' a1 a2 c1 c2
  -- positions of the two names in the variable list
  have m1 := (hmem n i).mp a1
  have m2 := (hmem m i').mp a2
  obtain ⟨k, hk, ek⟩ := List.mem_iff_getElem.mp m1
  obtain ⟨k', hk', ek'⟩ := List.mem_iff_getElem.mp m2
  have z1 : (n, k) ∈ (p1.vars.map (·.1)).zipIdx := (hz n k).mpr (by simp [List.getElem?_eq_getElem hk, ek])
  have z2 : (m, k') ∈ (p1.vars.map (·.1)).zipIdx := (hz m k').mpr (by simp [List.getElem?_eq_getElem hk', ek'])
  have j1 := listed_keep_ids ho2 ht2 n j k c1 z1
  have j2 := listed_keep_ids ho2 ht2 m j' k' c2 z2
  subst j1; subst j2
  have := sorted_index_lt hsorted (x := (n, i)) (y := (m, i')) (by rw [List.getElem?_eq_getElem hk, ek])
    (by rw [List.getElem?_eq_getElem hk', ek'])
  exact this

end Rsbdd.C11
