/-
C08, lexical level: `scan_eq_munch` — the scanner of the model (a mirror of the implementation's
regular expression: first matching alternative) computes the lexical specification of
`Spec/Lexer.lean` (longest matching symbol, digit runs, references, name runs, comments, other
characters as separators).
-/
import Rsbdd.Spec.Lexer
import Rsbdd.Thm.C08
namespace Rsbdd.C08
open LexSpec

theorem stripPrefix_spec : ∀ (p : List Char) (cs rest : List Ch), stripPrefix p cs = some rest →
    cs.map (·.c) = p ++ rest.map (·.c)
  | [], cs, rest, h => by simp [stripPrefix] at h; subst h; simp
  | a :: p, [], rest, h => by simp [stripPrefix] at h
  | a :: p, x :: cs, rest, h => by
    simp only [stripPrefix] at h
    split at h
    · rename_i hx
      have := stripPrefix_spec p cs rest h
      simp only [beq_iff_eq] at hx
      simp [hx, this]
    · simp at h

/-- two literals that both match at the same place: the shorter is a proper prefix of the longer -/
theorem properPrefix_of_both {p q : List Char} {cs r1 r2 : List Ch}
    (h1 : stripPrefix p cs = some r1) (h2 : stripPrefix q cs = some r2) (hlt : p.length < q.length) :
    isProperPrefix p q = true := by
  have e1 := stripPrefix_spec p cs r1 h1
  have e2 := stripPrefix_spec q cs r2 h2
  simp only [isProperPrefix, Bool.and_eq_true, decide_eq_true_eq, beq_iff_eq]
  refine ⟨hlt, ?_⟩
  have : (cs.map (·.c)).take p.length = p := by rw [e1]; simp
  rw [e2] at this
  rw [List.take_append_of_le_length (by omega)] at this
  exact this

theorem foldl_keep (b : String × Token × List Ch) : ∀ (l : List (String × Token × List Ch)),
    (∀ m ∈ l, ¬ m.1.length > b.1.length) →
    l.foldl (fun (best : Option (String × Token × List Ch)) m =>
      match best with
      | none => some m
      | some b => if m.1.length > b.1.length then some m else some b) (some b) = some b
  | [], _ => rfl
  | m :: l, h => by
    simp only [List.foldl_cons]
    have hm := h m (by simp)
    simp only [hm, if_false]
    exact foldl_keep b l (fun m' hm' => h m' (by simp [hm']))

/-- on a table in which no literal is a proper prefix of a later one, the first literal that matches
is the longest one that matches -/
theorem first_is_longest : ∀ (tbl : List (String × Token)),
    tbl.Pairwise (fun a b => isProperPrefix a.1.toList b.1.toList = false) → ∀ (cs : List Ch),
    ((tbl.filterMap (fun (s, t) => (stripPrefix s.toList cs).map (fun rest => (s, t, rest)))).foldl
      (fun (best : Option (String × Token × List Ch)) m =>
        match best with
        | none => some m
        | some b => if m.1.length > b.1.length then some m else some b) none).map (fun m => (m.2.1, m.2.2)) =
    tbl.findSome? (fun (s, t) => (stripPrefix s.toList cs).map (fun rest => (t, rest)))
  | [], _, cs => by simp
  | (s, t) :: tbl, hp, cs => by
    have hp' := List.pairwise_cons.mp hp
    cases hs : stripPrefix s.toList cs with
    | none =>
      simp only [List.filterMap_cons, hs, Option.map_none, List.findSome?_cons]
      exact first_is_longest tbl hp'.2 cs
    | some rest =>
      simp only [List.filterMap_cons, hs, Option.map_some, List.foldl_cons, List.findSome?_cons]
      rw [foldl_keep]
      · rfl
      · intro m hm hgt
        simp only [List.mem_filterMap] at hm
        obtain ⟨⟨s', t'⟩, hmem, hf⟩ := hm
        simp only [Option.map_eq_some_iff] at hf
        obtain ⟨rest', hs', rfl⟩ := hf
        have := properPrefix_of_both hs hs' (by simpa [String.length] using hgt)
        rw [hp'.1 (s', t') hmem] at this
        cases this

theorem symbolTable_longest_first :
    symbolTable.Pairwise (fun a b => isProperPrefix a.1.toList b.1.toList = false) := by decide

theorem longestSymbol_eq (cs : List Ch) : longestSymbol cs = matchSymbol cs := by
  unfold longestSymbol symbolMatches matchSymbol
  exact first_is_longest symbolTable symbolTable_longest_first cs


/-- `scan_eq_munch`: the implementation's scanner (first matching alternative) computes the lexical
specification (longest symbol; digit runs; references; name runs; comments; separators) -/
theorem scan_eq_munch : ∀ (fuel : Nat) (cs : List Ch), scan fuel cs = LexSpec.lex fuel cs
  | 0, _ => by simp [scan, lex]
  | fuel + 1, [] => by simp [scan, lex]
  | fuel + 1, x :: cs => by
    rw [scan, lex, longestSymbol_eq]
    cases hm : matchSymbol (x :: cs) with
    | some p => obtain ⟨t, rest⟩ := p; simp only [scan_eq_munch fuel rest]
    | none =>
      simp only
      by_cases hd : x.cls = .digit
      · simp only [hd, beq_self_eq_true, if_true, scan_eq_munch fuel]
      · have hd' : (x.cls == Cls.digit) = false := by simpa using hd
        simp only [hd', Bool.false_eq_true, if_false]
        -- what both do when there is no reference here
        have tail : (if x.wordLike = true then
              Lexeme.ident (chars ((x :: cs).takeWhile Ch.wordLike)) :: scan fuel ((x :: cs).dropWhile Ch.wordLike)
            else
              match (if (x.c == '"') = true then
                  match cs.dropWhile (fun y => y.c != '"') with
                  | _ :: rest => some rest
                  | [] => none
                else none : Option (List Ch)) with
              | some rest => scan fuel rest
              | none => scan fuel cs) =
            (if x.wordLike = true then
              Lexeme.ident (chars ((x :: cs).takeWhile Ch.wordLike)) :: lex fuel ((x :: cs).dropWhile Ch.wordLike)
            else if (x.c == '"' && (cs.dropWhile (fun y => y.c != '"')) != []) = true then
              lex fuel ((cs.dropWhile (fun y => y.c != '"')).drop 1)
            else lex fuel cs) := by
          by_cases hw : x.wordLike = true
          · simp only [hw, if_true, scan_eq_munch fuel]
          · simp only [hw, if_false]
            by_cases hq : (x.c == '"') = true
            · simp only [hq, if_true, Bool.true_and]
              cases hdq : cs.dropWhile (fun y => y.c != '"') with
              | nil => simp [scan_eq_munch fuel]
              | cons y rest => simp [scan_eq_munch fuel]
            · simp only [hq, Bool.false_eq_true, if_false, Bool.false_and, scan_eq_munch fuel]
        by_cases hb : (x.c == '{') = true
        · simp only [hb, if_true, Bool.true_and]
          cases hdw : cs.dropWhile Ch.wordLike with
          | nil =>
            simp only [List.head?_nil, Option.map_none, Option.getD_none, Bool.and_false, Bool.false_eq_true, if_false]
            exact tail
          | cons y rest =>
            simp only [List.head?_cons, Option.map_some, Option.getD_some, List.drop_succ_cons, List.drop_zero]
            by_cases hc : (!(cs.takeWhile Ch.wordLike).isEmpty && y.c == '}') = true
            · simp only [hc, if_true, scan_eq_munch fuel]
            · simp only [hc, Bool.false_eq_true, if_false]
              exact tail
        · simp only [hb, Bool.false_eq_true, if_false, Bool.false_and]
          exact tail

/-- hence the tokenizer computes the token list the lexical specification assigns to the text -/
theorem tokenize_eq_spec (cs : List Ch) (ord : List (String × Nat)) : tokenize cs ord = LexSpec.tokens cs ord := by
  unfold tokenize LexSpec.tokens
  rw [scan_eq_munch]

end Rsbdd.C08
