/-
C03 — connectives compute the pointwise Boolean operation of their operands.

Unconditional: no ordering or reducedness hypothesis, every operand diagram, every
assignment.  "The operands are left unchanged" is immediate for the model (values are
immutable); on the Rust side it is checked by the correspondence run (operands are
re-dumped after every call) and rests on `Rc<BDD>` having no interior mutability.
-/
import Rsbdd.Proofs.Derived

namespace Rsbdd.C03
open BDD

theorem eval_and (a b : BDD) (σ : Asg) : eval (and a b) σ = (eval a σ && eval b σ) := BDD.eval_and a b σ
theorem eval_or (a b : BDD) (σ : Asg) : eval (or a b) σ = (eval a σ || eval b σ) := BDD.eval_or a b σ
theorem eval_not (a : BDD) (σ : Asg) : eval (not a) σ = !(eval a σ) := BDD.eval_not a σ
theorem eval_implies (a b : BDD) (σ : Asg) : eval (implies a b) σ = (!(eval a σ) || eval b σ) :=
  BDD.eval_implies a b σ
theorem eval_eq (a b : BDD) (σ : Asg) : eval (eq a b) σ = (eval a σ == eval b σ) := BDD.eval_eq a b σ
theorem eval_xor (a b : BDD) (σ : Asg) : eval (xor a b) σ = (eval a σ != eval b σ) := BDD.eval_xor a b σ
theorem eval_nor (a b : BDD) (σ : Asg) : eval (nor a b) σ = !(eval a σ || eval b σ) := BDD.eval_nor a b σ
theorem eval_nand (a b : BDD) (σ : Asg) : eval (nand a b) σ = !(eval a σ && eval b σ) := BDD.eval_nand a b σ
theorem eval_ite (a b c : BDD) (σ : Asg) :
    eval (ite a b c) σ = if eval a σ then eval b σ else eval c σ := BDD.eval_ite a b c σ
theorem eval_var (s : Nat) (σ : Asg) : eval (var s) σ = σ s := BDD.eval_var s σ
theorem eval_const (v : Bool) (σ : Asg) : eval (mkConst v) σ = v := BDD.eval_mkConst v σ

-- the statements are about real, non-degenerate diagrams: an interleaved pair
example : and (node T 0 (node T 4 F)) (node (node T 3 F) 1 F) ≠ F ∧
    and (node T 0 (node T 4 F)) (node (node T 3 F) 1 F) ≠ T := by
  simp [BDD.and, mk, mkConst]

end Rsbdd.C03
