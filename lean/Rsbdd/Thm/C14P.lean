/-
C14 at the level of the bytes of the parse-tree export (`rsbdd -p`, `src/parser_io.rs`).
`Model/DotTree.lean` gives node `i` of `Dot.parseTree` the id `n_<i>` and the label `node_label` formats, the
edges the strings `GraphWalk::edges` pushes, and defines decoders for both.

* `tree_dot_read_back`: the text written for a syntax tree is read back, by `DotText.readDot`, as exactly that
  labelled graph (ids, labels and edge labels as text), whatever characters the variable names contain;
* `readHead_headText`: a node label determines the constructor of its node with its operator, constant and
  names (the names bound by a quantifier being free of blanks, commas and line feeds — `\w+` names are);
  `readELabel_elabelText`: an edge label determines which operand the edge leads to;
* `treeNodeId_injective`: distinct nodes have distinct ids.

* `bdd_text_denotes`: the same composition for the diagram export — the text of `rsbdd -d`, read by `readDot` and decoded
  (`bddGraphOfText`), is a decision graph that evaluates to the function of the diagram (composed with `dot_denotes`).
* `tree_text_determines`: composed with `tree_roundtrip` (Thm/C14T: heads and labelled edges determine the term) —
  the text, read by `readDot`, its labels decoded and its names mapped back to numbers (`hgraphOfText`), then rebuilt
  (`rebuild`), is the parsed formula at every node, in particular at the node of the whole formula.  The real export is compared byte for byte with `treeDotText` on every case (recorded tie
`tree-model.identical / .differs`) and read by `readDot` as well as by the harness.
-/
import Rsbdd.Proofs.DotTree3
import Rsbdd.Thm.C14D
namespace Rsbdd.C14
open DotText Dot
open Gen.Queens (natStr)
open Cli.Text (NameOk)

/-- the names a label lists between brackets -/
def HeadNamesOk : HeadS → Prop
  | .quant _ ns => ∀ n ∈ ns, NameOk n
  | _ => True

theorem readHead_headText (h : HeadS) (ok : HeadNamesOk h) : readHead (headText h) = some h := by
  cases h with
  | false_ => exact readHead_simple.2.2.1
  | true_ => exact readHead_simple.2.2.2.1
  | var n => exact readHead_var n
  | not => exact readHead_simple.1
  | quant q ns => exact readHead_quant q ns ok
  | cntConst op n => exact readHead_cntConst op n
  | cntVar op => exact readHead_cntVar op
  | fix n g => exact readHead_fix n g
  | ite => exact readHead_simple.2.1
  | bin op => exact readHead_bin op
  | subtree => exact readHead_simple.2.2.2.2
  | ref n => exact readHead_ref n

theorem readELabel_elabelText (l : ELabel) : readELabel (elabelText l) = some l := DotText.readELabel_elabelText l

theorem treeNodeId_idOk (i : Nat) : IdOk (treeNodeId i) := by
  intro c hc
  simp only [treeNodeId, List.mem_append, List.mem_cons, List.not_mem_nil, or_false] at hc
  rcases hc with (rfl | rfl) | hc
  · decide
  · decide
  · have hd := natStr_digits i c hc
    simp only [idChar, Bool.or_eq_true, Bool.and_eq_true, decide_eq_true_eq, beq_iff_eq]
    right
    simp only [Char.isDigit, Bool.and_eq_true, decide_eq_true_eq] at hd
    exact ⟨hd.1, hd.2⟩

theorem treeNodeId_injective {i j : Nat} (h : treeNodeId i = treeNodeId j) : i = j := by
  simp only [treeNodeId, List.cons_append, List.nil_append, List.cons.injEq, true_and] at h
  have := congrArg readDec h
  rw [readDec_natStr, readDec_natStr] at this
  exact Option.some.inj this

/-- C14, text level, second export: the DOT text written for a syntax tree is read back as its labelled graph -/
theorem tree_dot_read_back (nameOf : Nat → String) (g : TreeGraph) :
    readDot (treeDotText nameOf g) = some (treeTextGraph nameOf g) := by
  apply read_render
  refine ⟨?_, ?_, ?_⟩
  · intro c hc
    simp [treeTextGraph] at hc
    rcases hc with rfl | rfl | rfl | rfl | rfl | rfl | rfl | rfl | rfl | rfl <;> decide
  · intro n hn
    simp only [treeTextGraph, List.mem_map] at hn
    obtain ⟨⟨f, i⟩, _, rfl⟩ := hn
    exact treeNodeId_idOk i
  · intro e he
    simp only [treeTextGraph, List.mem_map] at he
    obtain ⟨m, _, rfl⟩ := he
    exact ⟨treeNodeId_idOk m.1, treeNodeId_idOk m.2.2⟩

open Formula
open Cli.Text (allSome allSome_map)

/-- names back to variable numbers -/
def toHead (idOf : String → Option Nat) : HeadS → Option Head
  | .false_ => some .false_
  | .true_ => some .true_
  | .var n => (idOf n).map .var
  | .not => some .not
  | .quant q ns => (allSome (ns.map idOf)).map (.quant q)
  | .cntConst op n => some (.cntConst op n)
  | .cntVar op => some (.cntVar op)
  | .fix n g => (idOf n).map (fun v => .fix v g)
  | .ite => some .ite
  | .bin op => some (.bin op)
  | .subtree => some .subtree
  | .ref n => some (.ref n)

def readNodeId (s : List Char) : Option Nat :=
  match s with
  | 'n' :: '_' :: rest => readDec rest
  | _ => none

/-- the exported graph as a reader of the TEXT sees it: node `i` is the `i`-th declared node -/
def hgraphOfText (idOf : String → Option Nat) (tg : TextGraph) : Option HGraph :=
  match allSome (tg.nodes.map (fun n => (readHead n.2).bind (toHead idOf))),
        allSome (tg.edges.map (fun e => match readNodeId e.1, readELabel e.2.2, readNodeId e.2.1 with
          | some a, some lab, some b => some (a, lab, b)
          | _, _, _ => none)) with
  | some hs, some es => some ⟨hs, es⟩
  | _, _ => none

theorem readNodeId_treeNodeId (i : Nat) : readNodeId (treeNodeId i) = some i := by
  simp [readNodeId, treeNodeId, readDec_natStr]

theorem toHead_headS (nameOf : Nat → String) (idOf : String → Option Nat) (hid : ∀ v, idOf (nameOf v) = some v)
    (f : Formula) : toHead idOf (headS nameOf f) = some (headOf f) := by
  cases f <;> simp [headS, toHead, headOf, hid]
  case quant q vs f =>
    have := allSome_map (idOf ∘ nameOf) id vs (fun v _ => by simp [hid])
    simpa [List.map_map] using this

theorem hgraphOfText_tree (nameOf : Nat → String) (idOf : String → Option Nat)
    (hid : ∀ v, idOf (nameOf v) = some v) (hnames : ∀ v, NameOk (nameOf v)) (g : TreeGraph) :
    hgraphOfText idOf (treeTextGraph nameOf g) = some (toH g) := by
  unfold hgraphOfText treeTextGraph toH
  simp only [List.map_map]
  have h1 := allSome_map
    ((fun (n : List Char × List Char) => (readHead n.2).bind (toHead idOf)) ∘
      (fun (x : Formula × Nat) => (treeNodeId x.2, headText (headS nameOf x.1))))
    (fun x => headOf x.1) g.nodes.zipIdx (by
      intro x _
      have ok : HeadNamesOk (headS nameOf x.1) := by
        cases x.1 <;> simp [headS, HeadNamesOk]
        case quant q vs f => intro v _; exact hnames v
      simp only [Function.comp_apply, readHead_headText _ ok, Option.bind_some, toHead_headS nameOf idOf hid])
  have h2 := allSome_map
    ((fun (e : List Char × List Char × List Char) => match readNodeId e.1, readELabel e.2.2, readNodeId e.2.1 with
        | some a, some lab, some b => some (a, lab, b)
        | _, _, _ => none) ∘
      (fun (e : Nat × ELabel × Nat) => (treeNodeId e.1, treeNodeId e.2.2, elabelText e.2.1)))
    id g.edges (by
      intro e _
      simp only [Function.comp_apply, readNodeId_treeNodeId, C14.readELabel_elabelText, id])
  have hz : (g.nodes.zipIdx.map (fun x => headOf x.1)) = g.nodes.map headOf := by
    have : (fun x : Formula × Nat => headOf x.1) = headOf ∘ Prod.fst := rfl
    rw [this, ← List.map_map, List.zipIdx_map_fst]
  rw [h1, h2, hz]
  simp

/-- C14, second sentence, from the bytes: the text of the parse-tree export determines the parsed formula — read by
`readDot`, its labels decoded (`readHead`, `readELabel`, names back to numbers), and the term rebuilt from heads
and edges (`rebuild`), it is the syntax tree at every node, in particular at the node of the whole formula -/
theorem tree_text_determines (nameOf : Nat → String) (idOf : String → Option Nat)
    (hid : ∀ v, idOf (nameOf v) = some v) (hnames : ∀ v, NameOk (nameOf v)) (f : Formula) (hnl : NoLeaf f) :
    ∃ (g : TreeGraph) (G : HGraph), parseTree f = some g ∧
      (readDot (treeDotText nameOf g)).bind (hgraphOfText idOf) = some G ∧
      (∀ (i : Nat) (n : Formula), g.nodes[i]? = some n → rebuild G (Formula.depth n) i = some n) ∧
      (∃ i : Nat, g.nodes[i]? = some f) := by
  obtain ⟨g, hg, hre, hroot⟩ := tree_roundtrip f hnl
  refine ⟨g, toH g, hg, ?_, hre, hroot⟩
  rw [tree_dot_read_back, Option.bind_some, hgraphOfText_tree nameOf idOf hid hnames]


open BDD Env

/-! ### the diagram export, from the bytes to the function -/

def readNodeIdB (addrInv : Nat → Option Nat) (s : List Char) : Option NodeId :=
  if s = ['n', '_', 't', 'r', 'u', 'e'] then some .true_
  else if s = ['n', '_', 'f', 'a', 'l', 's', 'e'] then some .false_
  else match s with
  | 'n' :: '_' :: '0' :: 'x' :: rest =>
    match readHex (rest ++ ['}']) 0 with
    | some (a, []) => (addrInv a).map .at
    | _ => none
  | _ => none

def readNodeLabelB (idOf : List Char → Option Nat) (i : NodeId) (label : List Char) : Option NodeLabel :=
  match i with
  | .true_ => if label = ['t', 'r', 'u', 'e'] then some .true_ else none
  | .false_ => if label = ['f', 'a', 'l', 's', 'e'] then some .false_ else none
  | .at _ => (idOf label).map .var

def readEdgeLabelB (s : List Char) : Option Bool :=
  if s = ['T'] then some true else if s = ['F'] then some false else none

/-- the diagram export as a reader of the TEXT sees it -/
def bddGraphOfText (idOf : List Char → Option Nat) (addrInv : Nat → Option Nat) (tg : TextGraph) : Option BddGraph :=
  match allSome (tg.nodes.map (fun n => (readNodeIdB addrInv n.1).bind (fun i => (readNodeLabelB idOf i n.2).map (fun l => (i, l))))),
        allSome (tg.edges.map (fun e => match readNodeIdB addrInv e.1, readEdgeLabelB e.2.2, readNodeIdB addrInv e.2.1 with
          | some a, some t, some b => some (a, t, b)
          | _, _, _ => none)) with
  | some ns, some es => some ⟨ns, es⟩
  | _, _ => none

theorem readNodeIdB_text (addr : Nat → Nat) (addrInv : Nat → Option Nat) (hinv : ∀ p, addrInv (addr p) = some p)
    (i : NodeId) : readNodeIdB addrInv (nodeIdText addr i) = some i := by
  cases i with
  | true_ => simp [readNodeIdB, nodeIdText]
  | false_ => simp [readNodeIdB, nodeIdText]
  | «at» p =>
    have h := readHex_toHex (addr p) []
    simp [readNodeIdB, nodeIdText, h, hinv]

theorem bddGraphOfText_bdd (names : Nat → List Char) (idOf : List Char → Option Nat) (addr : Nat → Nat)
    (addrInv : Nat → Option Nat) (hid : ∀ v, idOf (names v) = some v) (hinv : ∀ p, addrInv (addr p) = some p)
    (g : BddGraph) (hwf : ∀ n ∈ g.nodes, (n.1 = .true_ ↔ n.2 = .true_) ∧ (n.1 = .false_ ↔ n.2 = .false_)) :
    bddGraphOfText idOf addrInv (bddTextGraph names addr g) = some g := by
  unfold bddGraphOfText bddTextGraph
  simp only [List.map_map]
  have h1 := allSome_map
    ((fun (n : List Char × List Char) => (readNodeIdB addrInv n.1).bind (fun i => (readNodeLabelB idOf i n.2).map (fun l => (i, l)))) ∘
      (fun (n : NodeId × NodeLabel) => (nodeIdText addr n.1, nodeLabelText names n.2)))
    id g.nodes (by
      intro n hn
      obtain ⟨i, l⟩ := n
      have hw := hwf (i, l) hn
      simp only [Function.comp_apply, readNodeIdB_text addr addrInv hinv, Option.bind_some, id]
      cases i <;> cases l <;> simp_all [readNodeLabelB, nodeLabelText])
  have h2 := allSome_map
    ((fun (e : List Char × List Char × List Char) => match readNodeIdB addrInv e.1, readEdgeLabelB e.2.2, readNodeIdB addrInv e.2.1 with
        | some a, some t, some b => some (a, t, b)
        | _, _, _ => none) ∘
      (fun (e : NodeId × Bool × NodeId) => (nodeIdText addr e.1, nodeIdText addr e.2.2, edgeLabelText e.2.1)))
    id g.edges (by
      intro e _
      obtain ⟨a, t, b⟩ := e
      simp only [Function.comp_apply, readNodeIdB_text addr addrInv hinv, id]
      cases t <;> simp [readEdgeLabelB, edgeLabelText])
  rw [h1, h2]
  simp

theorem bddGraph_wf (r : PBDD) (flt : BDD.Filter) :
    ∀ n ∈ (bddGraph r flt).nodes, (n.1 = .true_ ↔ n.2 = .true_) ∧ (n.1 = .false_ ↔ n.2 = .false_) := by
  intro n hn
  simp only [bddGraph, List.mem_map] at hn
  obtain ⟨m, _, rfl⟩ := hn
  cases m <;> simp [nodeId, nodeLabel]

/-- C14, first sentence, from the bytes: the text of the diagram export — read by `readDot`, its ids, labels and edge
labels decoded (`bddGraphOfText`: `n_true`, `n_false`, `n_0x<address>`; names back to variables; `T` / `F`) — is a
decision graph that evaluates, from the root's id, to the function of the diagram under every assignment; for every
handle of a reachable environment, every naming of the variables that can be inverted and every placement of the
nodes at distinct addresses -/
theorem bdd_text_denotes {env : Env} (hi : Inv env) {r : PBDD} (hr : Good env.table r)
    (names : Nat → List Char) (idOf : List Char → Option Nat) (addr : Nat → Nat) (addrInv : Nat → Option Nat)
    (hid : ∀ v, idOf (names v) = some v) (hinv : ∀ p, addrInv (addr p) = some p) (σ : Asg) :
    ∃ G : BddGraph, (readDot (bddDotText names addr r .any)).bind (bddGraphOfText idOf addrInv) = some G ∧
      gEval G r.size (nodeId r) σ = some (eval r.erase σ) := by
  refine ⟨bddGraph r .any, ?_, dot_denotes hi hr σ⟩
  rw [bdd_dot_read_back, Option.bind_some]
  exact bddGraphOfText_bdd names idOf addr addrInv hid hinv _ (bddGraph_wf r .any)


-- non-vacuity: labels of every kind are decoded
example : [HeadS.quant .exists_ ["a", "b'"], .cntConst .atMost 12, .cntVar .exactly, .fix "X" true, .var "Not",
    .bin .impliesInv, .quant .forall_ [], .ref "r"].all (fun h => readHead (headText h) == some h) = true := by
  decide +kernel

end Rsbdd.C14
