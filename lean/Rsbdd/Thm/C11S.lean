/-
C11, last sentence, at the level of `main` and of the bytes it prints: `export_reimport_stdout` composes
`readOrdering_export` (Thm/C11R: the text `-r` prints, read as an ordering file, numbers the names by position),
`export_reimport` (Thm/C11E: same names, same table, same `-v` lines) and the model of `main` (`Cli.run`, `Cli.Text.render`).
-/
import Rsbdd.Thm.C11R
import Rsbdd.Thm.C10T
namespace Rsbdd.C11
open Parser Cli BDD Formula Cli.Text

/-- what a successful run of the model of `main` (no `-m`, no `-c`, one evaluation) consists of -/
theorem run_parts {cs : List Ch} {ordering : Option (List Ch)} {ord : List (String × Nat)} {iters fuel : Nat}
    {o : Options} {out : Output} (hord : orderingOf ordering = some ord)
    (hopt : o.model = false ∧ o.retain = .any ∧ o.benchmark = none)
    (hrun : run iters fuel cs ordering o = some out) :
    ∃ ts p b, tokenize cs ord = some ts ∧ newWithEnv ts = some p ∧ evalF iters fuel p.formula = some b ∧
      out.ordering = (if o.exportOrdering then p.vars.map (·.1) else []) ∧
      out.header = (if o.truthtable then some (p.freeVars.map (·.1) ++ ["*"]) else none) ∧
      (if o.truthtable then tableRows (p.freeVars.map (·.2)) o.filter b ((p.freeVars.map (·.2)).map (fun _ => Cell.any))
        else some []) = some out.rows ∧
      (if o.vars then trueVarRows (p.freeVars.map (·.2)) (p.freeVars.map (·.1) ++ ["*"]) b ((p.freeVars.map (·.2)).map (fun _ => Cell.any))
        else some []) = some out.vlines := by
  obtain ⟨hm, hc, hb⟩ := hopt
  unfold run at hrun
  simp only [hord, hm, hc, hb, Option.getD_none] at hrun
  split at hrun
  · simp at hrun
  · rename_i ts ht
    split at hrun
    · simp at hrun
    · rename_i p hp
      simp only [show ((1 : Nat) == 0) = false from rfl, Bool.false_eq_true, ite_false] at hrun
      split at hrun
      · simp at hrun
      · rename_i r0 he
        simp only [C20.retain_any] at hrun
        split at hrun
        · rename_i rows vl h1 h2
          cases hrun
          exact ⟨ts, p, r0, ht, hp, he, rfl, rfl, h1, h2⟩
        · simp at hrun

/-- C11, last sentence, from the bytes: export the order with `-r`, feed the printed text back with `-o`, and the run
prints, byte for byte, what the run under the original ordering prints (no `-m`, no `-c`; any of `-t`, `-v`, `-r`,
any row filter) -/
theorem export_reimport_stdout {cs : List Ch} {ordering1 : Option (List Ch)} {ord1 : List (String × Nat)}
    {iters fuel : Nat} {oR o : Options} {outR out1 out2 : Output}
    (clsOf : Char → Cls) (hnl : clsOf '\n' = .other) (hbr : clsOf '{' = .other) (hcls : ∀ x ∈ cs, x.cls = clsOf x.c)
    (hord1 : orderingOf ordering1 = some ord1) (ho1 : OrderingOk ord1)
    (hoptR : oR.model = false ∧ oR.retain = .any ∧ oR.benchmark = none) (hexp : oR.exportOrdering = true)
    (hopt : o.model = false ∧ o.retain = .any ∧ o.benchmark = none)
    (hg : ∀ ord ts p, tokenize cs ord = some ts → newWithEnv ts = some p → GoodF p.formula)
    (hrunR : run iters fuel cs ordering1 oR = some outR)
    (hrun1 : run iters fuel cs ordering1 o = some out1)
    (hrun2 : run iters fuel cs (some (exportText clsOf outR.ordering)) o = some out2) :
    render out2 = render out1 := by
  obtain ⟨tsR, pR, bR, htR, hpR, _, hordR, _, _, _⟩ := run_parts hord1 hoptR hrunR
  rw [hexp] at hordR
  simp only [ite_true] at hordR
  obtain ⟨ts1, p1, b1, ht1, hp1, he1, ho1', hh1, hr1, hv1⟩ := run_parts hord1 hopt hrun1
  -- the two runs under the same ordering read the same text
  rw [htR] at ht1; cases ht1
  rw [hpR] at hp1; cases hp1
  have hre := readOrdering_export clsOf hnl hbr hcls ho1 htR hpR
  have hord2 : orderingOf (some (exportText clsOf outR.ordering)) = some ((pR.vars.map (·.1)).zipIdx) := by
    rw [hordR]; exact hre
  obtain ⟨ts2, p2, b2, ht2, hp2, he2, ho2', hh2, hr2, hv2⟩ := run_parts hord2 hopt hrun2
  obtain ⟨hvars, hfree, hrows, hvl⟩ := export_reimport ho1 htR hpR ht2 hp2 (hg _ _ _ htR hpR) (hg _ _ _ ht2 hp2) he1 he2
  have e : out2 = out1 := by
    obtain ⟨a1, h1, r1, v1⟩ := out1
    obtain ⟨a2, h2, r2, v2⟩ := out2
    simp only at ho1' hh1 hr1 hv1 ho2' hh2 hr2 hv2
    have ea : a2 = a1 := by rw [ho1', ho2', hvars]
    have eh : h2 = h1 := by rw [hh1, hh2, hfree]
    have er : r2 = r1 := by
      have : some r2 = some r1 := by rw [← hr1, ← hr2, hrows o.filter]
      exact Option.some.inj this
    have ev : v2 = v1 := by
      have : some v2 = some v1 := by rw [← hv1, ← hv2, hfree, hvl]
      exact Option.some.inj this
    rw [ea, eh, er, ev]
  rw [e]

end Rsbdd.C11
