/-
C18 at the level of the bytes `random_graph_gen` writes.  `Model/Gen/GraphText.lean` models the two output forms
(an edge list `a,b` per line; with `--dot` a Graphviz graph) and defines a reader for each.

* `csv_read_back`, `dot_read_back`: an edge list whose vertex names are not empty and free of `,`, blank and line
  feed is read back exactly from either form (with its orientation from the `--dot` form);
* `convert_text_read_back`: in particular what `--convert` writes for an input list (the model's `readGraph`, the
  object of `convert_directed` / `convert_undirected_*`), in both forms.

The real output is read by these readers (and by the harness's, which must agree), and for `--convert`, whose
output order is determined by the input, it is compared byte for byte with the text model (recorded tie
`graph-text.identical / .differs`).
-/
import Rsbdd.Proofs.GraphText2
import Rsbdd.Thm.C18
namespace Rsbdd.C18
open Gen Gen.GraphText Gen.Graph

theorem csv_read_back (es : List Edge) (h : ∀ e ∈ es, VName e.1 ∧ VName e.2) : readCsv (csvText es) = some es :=
  readCsv_csvText es h

theorem dot_read_back (u : Bool) (es : List Edge) (h : ∀ e ∈ es, VName e.1 ∧ VName e.2) :
    readDot (dotText u es) = some (u, es) := readDot_dotText u es h

def edgeChars (e : String × String) : Edge := (e.1.toList, e.2.toList)

theorem readGraph_sub (edges : List (String × String)) (u : Bool) : ∀ p ∈ readGraph edges u, p ∈ edges := by
  cases u with
  | true => exact convert_undirected_sub edges
  | false => rw [convert_directed]; exact fun _ h => h

/-- what `--convert` writes, in either form, is read back as the converted list -/
theorem convert_text_read_back (edges : List (String × String)) (u : Bool)
    (h : ∀ e ∈ edges, VName e.1.toList ∧ VName e.2.toList) :
    readCsv (csvText ((readGraph edges u).map edgeChars)) = some ((readGraph edges u).map edgeChars) ∧
    readDot (dotText u ((readGraph edges u).map edgeChars)) = some (u, (readGraph edges u).map edgeChars) := by
  have hn : ∀ e ∈ (readGraph edges u).map edgeChars, VName e.1 ∧ VName e.2 := by
    intro e he
    obtain ⟨p, hp, rfl⟩ := List.mem_map.mp he
    exact h p (readGraph_sub edges u p hp)
  exact ⟨readCsv_csvText _ hn, readDot_dotText u _ hn⟩

-- non-vacuity
example : readCsv (csvText [("a".toList, "b".toList), ("v1".toList, "v10".toList)]) =
    some [("a".toList, "b".toList), ("v1".toList, "v10".toList)] := by decide +kernel
example : readDot (dotText true [("a".toList, "b".toList)]) = some (true, [("a".toList, "b".toList)]) := by decide +kernel

end Rsbdd.C18
