/-
C16 for the default variable order: `max_clique_gen | rsbdd` as it is used (without `--all`).  From
`clique_text_tokens` (Thm/C16T), the generic `default_order_transfer` (Proofs/DefaultOrder.lean) and `clique_max`
(Thm/C16): the diagram the solver returns is true exactly on the maximum cliques, its variables read through the
vertex names.  Names as in Thm/C16T (`NamesOk`: ASCII identifiers, copies distinct from vertices).
-/
import Rsbdd.Thm.C16T
import Rsbdd.Proofs.DefaultOrder
namespace Rsbdd.C16
open Parser C11 Gen.Clique Grammar Formula BDD

theorem mem_varsToks : ∀ (l : List (String × Nat)) (p : String × Nat), p ∈ l → Token.var p.1 p.2 ∈ varsToks l
  | [], _, h => by simp at h
  | [q], p, h => by simp at h; subst h; simp [varsToks]
  | q :: q' :: r, p, h => by
    simp only [List.mem_cons] at h
    rcases h with rfl | h
    · simp [varsToks]
    · have := mem_varsToks (q' :: r) p (by simpa using h)
      simp [varsToks, this]

/-- every vertex is named in the counting comparison of the maximum-clique text -/
theorem own_in_maxToks (ns cs : Nat → String) (vid cid : Nat → Nat) (comp : List (Nat × Nat)) (vs : List Nat)
    (v : Nat) (hv : v ∈ vs) : Token.var (ns v) (vid v) ∈ maxToks ns cs vid cid comp vs := by
  have := mem_varsToks (vs.map (fun v => (ns v, vid v))) (ns v, vid v) (List.mem_map.mpr ⟨v, hv, rfl⟩)
  simp only [maxToks, List.mem_cons, List.mem_append]
  simp only [this, or_true, true_or]

theorem isClique_congr (edges : List (Nat × Nat)) (u : Bool) (vs : List Nat) (S S' : Nat → Bool)
    (h : ∀ v ∈ vs, S v = S' v) : IsClique edges u vs S ↔ IsClique edges u vs S' := by
  unfold IsClique
  constructor
  · intro hc a ha b hb hab sa sb
    exact hc a ha b hb hab (by rw [h a ha]; exact sa) (by rw [h b hb]; exact sb)
  · intro hc a ha b hb hab sa sb
    exact hc a ha b hb hab (by rw [← h a ha]; exact sa) (by rw [← h b hb]; exact sb)

/-- C16 for the way the tool is used (`max_clique_gen | rsbdd`, default variable order, without `--all`): the text is
accepted, and the diagram the solver returns for it is true exactly on the maximum cliques — an assignment of the
solver's variables being read through the vertex names -/
theorem clique_text_default (version : String) (hv : '"' ∉ version.toList) (nm : Nat → List Char) (pre : List Char)
    (edges : List (Nat × Nat)) (vs : List Nat) (u : Bool) (hn : NamesOk nm pre vs) (iters : Nat) :
    ∃ ts f b, tokenize (chs (text version nm pre edges vs u false)) [] = some ts ∧ parseFormula ts = some f ∧
      evalF iters (depth f) f = some b ∧ ROBDD b ∧
      ∀ (σ : Asg) (ν : String → Bool), (∀ name j, Token.var name j ∈ ts → σ j = ν name) →
        (eval b σ = true ↔
          IsClique edges u vs (fun v => ν (String.ofList (nm v))) ∧
          ∀ T : Nat → Bool, IsClique edges u vs T →
            (vs.filter T).length ≤ (vs.filter (fun v => ν (String.ofList (nm v)))).length) := by
  -- own variables even, copies odd
  have hvid : ∀ a ∈ vs, ∀ b ∈ vs, (fun v => 2 * v) a = (fun v => 2 * v) b → a = b := by intro a _ b _ h; simp at h; omega
  have hcid : ∀ a ∈ vs, ∀ b ∈ vs, (fun v => 2 * v + 1) a = (fun v => 2 * v + 1) b → a = b := by intro a _ b _ h; simp at h; omega
  have hdisj : ∀ a ∈ vs, ∀ b ∈ vs, (fun v => 2 * v) a ≠ (fun v => 2 * v + 1) b := by intro a _ b _ h; simp at h; omega
  have ht1 := clique_text_tokens version hv nm pre (complement edges vs u) vs false (fun v => 2 * v) (fun v => 2 * v + 1) hn
    (complement_subset edges vs u) hvid hcid hdisj
  have hsub := sub_clique (fun v => String.ofList (nm v)) (fun v => String.ofList (pre ++ nm v)) (fun v => 2 * v)
    (fun v => 2 * v + 1) (complement edges vs u) vs false
  have hok := nameOrdering_ok hn (fun v => 2 * v) (fun v => 2 * v + 1) hvid hcid hdisj
  have ht1' : tokenize (chs (text version nm pre edges vs u false)) (nameOrdering nm pre vs (fun v => 2 * v) (fun v => 2 * v + 1)) = _ := ht1
  obtain ⟨ts2, b, π, ht2, hp2, hb, hr, _, hmem, hsem⟩ :=
    default_order_transfer hok ht1' hsub
      (by rw [← formula_eq_formulaOf]; exact (formula_good edges vs u false _ _).2) iters
  refine ⟨ts2, _, b, ht2, hp2, hb, hr, ?_⟩
  intro σ ν hσ
  rw [hsem σ, ← formula_eq_formulaOf, clique_max edges vs u _ _ _ hcid hdisj]
  have hag : ∀ v ∈ vs, σ (π.f (2 * v)) = ν (String.ofList (nm v)) := by
    intro v hv'
    have hm := hmem _ _ (List.mem_append_right _ (by
      simp only [Bool.false_eq_true, if_false]
      exact own_in_maxToks _ _ _ _ _ _ v hv'))
    exact hσ _ _ hm
  have hfilt : vs.filter (fun v => σ (π.f (2 * v))) = vs.filter (fun v => ν (String.ofList (nm v))) :=
    List.filter_congr (fun v hv' => by rw [hag v hv'])
  rw [isClique_congr edges u vs _ _ hag, hfilt]

end Rsbdd.C16
