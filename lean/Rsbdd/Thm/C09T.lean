/-
C09, the table: `vars` lists every variable name of the text exactly once in variable order,
`free_vars` exactly those with a free occurrence (for reference-free formulas — the Rust
`var_is_free` answers `true` for every `{reference}`), in the same order.
-/
import Rsbdd.Thm.C09
import Rsbdd.Proofs.TableSpec

namespace Rsbdd.C09
open Grammar Formula BDD Parser

/-- the full variable list of `new_with_env`: every variable name of the text exactly once,
in variable order -/
theorem vars_spec {cs : List Ch} {ord : List (String × Nat)} {ts : List Token} {p : ParsedInfo}
    (hord : OrderingOk ord) (ht : tokenize cs ord = some ts) (hp : newWithEnv ts = some p) :
    p.vars.Pairwise (fun a b => a.2 < b.2) ∧
    (p.vars.map (·.1)).Nodup ∧
    (∀ n id, Token.var n id ∈ ts ↔ (n, id) ∈ p.vars) := by
  unfold newWithEnv at hp
  split at hp
  · simp at hp
  · rename_i f hf
    cases hp
    simp only
    obtain ⟨hnd, hsub⟩ := extractVars_spec ts
    have hinj := tokenize_ids_injective hord ht
    have hstrict := sortById_strict (extractVars ts) hnd
    have hmem : ∀ n id, Token.var n id ∈ ts ↔ (n, id) ∈ sortById (extractVars ts) := by
      intro n id
      rw [mem_sortById]
      constructor
      · intro h
        obtain ⟨n', hn'⟩ := extractVars_complete ts n id h
        have := hsub _ hn'
        have e : n' = n := (hinj n' id n id this h).mpr rfl
        rw [← e]; exact hn'
      · intro h; exact hsub _ h
    refine ⟨hstrict, ?_, hmem⟩
    -- names: distinct ids have distinct names
    rw [List.nodup_iff_pairwise_ne, List.pairwise_map]
    have hall : ∀ q ∈ sortById (extractVars ts), Token.var q.1 q.2 ∈ ts :=
      fun q hq => hsub q (mem_sortById.mp hq)
    refine List.Pairwise.imp_of_mem ?_ hstrict
    intro a b ha hb hlt e
    have := (hinj a.1 a.2 b.1 b.2 (hall a ha) (hall b hb)).mp e
    omega

/-- the free variables reported: exactly the variables of the text with a free occurrence, in
variable order (for reference-free formulas) -/
theorem freeVars_spec {cs : List Ch} {ord : List (String × Nat)} {ts : List Token} {p : ParsedInfo}
    (hord : OrderingOk ord) (ht : tokenize cs ord = some ts) (hp : newWithEnv ts = some p)
    (hpf : Parsed p.formula) :
    p.freeVars.Pairwise (fun a b => a.2 < b.2) ∧
    (∀ n id, (n, id) ∈ p.freeVars ↔ Token.var n id ∈ ts ∧ FV id p.formula) := by
  obtain ⟨hs, _, hm⟩ := vars_spec hord ht hp
  have hfv : p.freeVars = p.vars.filter (fun v => varIsFree v.2 p.formula) := by
    unfold newWithEnv at hp
    split at hp
    · simp at hp
    · cases hp; rfl
  rw [hfv]
  refine ⟨hs.sublist List.filter_sublist, fun n id => ?_⟩
  rw [List.mem_filter, ← hm, varIsFree_iff_fv id p.formula hpf]

end Rsbdd.C09
