/-
C10 (and the `-v` / `-r` parts of C07, C11) at the level of the bytes written to standard output.
`Model/CliText.lean` models what `main` prints — `print_header`, `print_sized_line` with its `{:w$}`
padding, the `-v` lines, the `-r` names — as text, and defines a reader for such text.
`stdout_read_back`: for every run of the model of `main`, reading the printed text gives back exactly the
header, rows, `-v` lines and `-r` names it was printed from.  So the statements of Thm/C10, C10E
(partition), C07 (one row under `-m`), C11 (same table) are statements about the printed text, and the
per-run comparison of the tool's real standard output with `render` of the model's output (recorded in the
evidence as stdout-model.identical / .differs) ties that text to the code.

Hypothesis on the character classes, as in Thm/C11R: `clsOf` gives every character of the text its class;
line feed, `|`, blank, `;`, `,` and `{` are outside `\w` (true of the regex crate's tables; pinned on ASCII).
-/
import Rsbdd.Proofs.CliNames
import Rsbdd.Thm.C10E
import Rsbdd.Thm.C20
namespace Rsbdd.C10
open BDD Cli Formula Parser Cli.Text

/-- C10/C11/C07 at the level of the bytes: whatever options are given, the text `main` writes to standard
output (`Cli.Text.render`: the `-r` names, the padded table, the `-v` lines) is read back, by the reader
`Cli.Text.readStdout`, as exactly the output it was printed from — no two outputs print the same, and every
statement about header, rows and `-v` lines is a statement about the printed text -/
theorem stdout_read_back {cs : List Ch} {ordering : Option (List Ch)} {ord : List (String × Nat)}
    {iters fuel : Nat} {o : Options} {out : Output}
    (clsOf : Char → Cls) (hsep : ∀ c ∈ ['\n', '|', ' ', ';', ','], clsOf c = .other) (hbr : clsOf '{' = .other)
    (hcls : ∀ x ∈ cs, x.cls = clsOf x.c)
    (hord : orderingOf ordering = some ord) (ho : OrderingOk ord)
    (hrun : run iters fuel cs ordering o = some out) :
    readStdout (render out) = some out := by
  apply read_render
  unfold run at hrun
  simp only [hord] at hrun
  split at hrun
  · simp at hrun
  · rename_i ts ht
    split at hrun
    · simp at hrun
    · rename_i p hp
      have hnames := names_ok clsOf hsep hbr hcls ho ht hp
      have hfree : ∀ n ∈ p.freeVars.map (·.1), NameOk n := by
        intro n hn
        apply hnames
        obtain ⟨q, hq, rfl⟩ := List.mem_map.mp hn
        have hfv : p.freeVars = p.vars.filter (fun v => varIsFree v.2 p.formula) := by
          unfold newWithEnv at hp
          split at hp
          · simp at hp
          · cases hp; rfl
        rw [hfv] at hq
        exact List.mem_map.mpr ⟨q, (List.mem_filter.mp hq).1, rfl⟩
      have hlabels : ∀ n ∈ p.freeVars.map (·.1) ++ ["*"], NameOk n := by
        intro n hn
        rcases List.mem_append.mp hn with hn | hn
        · exact hfree n hn
        · simp only [List.mem_singleton] at hn; subst hn; exact nameOk_star
      split at hrun
      · simp at hrun
      · rename_i r0 _
        split at hrun
        · rename_i rows vl hrows hvl
          cases hrun
          refine ⟨?_, ?_, ?_, ?_⟩
          · intro n hn
            simp only at hn
            split at hn
            · exact hnames n hn
            · simp at hn
          · intro ls hls n hn
            simp only at hls
            split at hls
            · cases hls; exact hlabels n hn
            · simp at hls
          · intro hnone
            simp only at hnone ⊢
            split at hnone
            · simp at hnone
            · rename_i htt
              simp only [htt] at hrows
              simpa using hrows.symm
          · intro l hl
            simp only at hl
            split at hvl
            · exact trueVarRows_names _ _ hlabels _ _ _ hvl l hl
            · cases hvl; simp at hl
        · simp at hrun


/-- C10 from the bytes: for every run of `rsbdd -t` (no `-m`, no `-c`, one evaluation) that succeeds, the text on
standard output, read back by `readStdout`, has exactly the rows the run printed, and those rows are a faithful
partition: pairwise disjoint partial assignments of the free variables; every assignment whose documented truth value
passes the filter is covered; the result column of a covering row is the formula's documented truth value -/
theorem stdout_table_faithful {cs : List Ch} {ordering : Option (List Ch)} {ord : List (String × Nat)}
    {iters fuel : Nat} {o : Options} {out : Output}
    (clsOf : Char → Cls) (hsep : ∀ c ∈ ['\n', '|', ' ', ';', ','], clsOf c = .other) (hbr : clsOf '{' = .other)
    (hcls : ∀ x ∈ cs, x.cls = clsOf x.c)
    (hord : orderingOf ordering = some ord) (ho : OrderingOk ord)
    (hopt : o.truthtable = true ∧ o.model = false ∧ o.retain = .any ∧ o.benchmark = none)
    (hg : ∀ ts p, tokenize cs ord = some ts → newWithEnv ts = some p → GoodF p.formula)
    (hrun : run iters fuel cs ordering o = some out) :
    ∃ ts p, tokenize cs ord = some ts ∧ newWithEnv ts = some p ∧
      (readStdout (render out)).map (·.rows) = some out.rows ∧
      (∀ σ (tv : Bool), (tv = true ↔ Sem p.formula FEnv.empty σ) → Filter.passes o.filter tv = true →
        ∃ r ∈ out.rows, Covers r.cells (p.freeVars.map (·.2)) σ) ∧
      (∀ r ∈ out.rows, ∀ σ, Covers r.cells (p.freeVars.map (·.2)) σ → (r.result = true ↔ Sem p.formula FEnv.empty σ)) ∧
      out.rows.Pairwise (fun r r' => ∀ σ, ¬ (Covers r.cells (p.freeVars.map (·.2)) σ ∧ Covers r'.cells (p.freeVars.map (·.2)) σ)) := by
  have hread := stdout_read_back clsOf hsep hbr hcls hord ho hrun
  obtain ⟨htt, hm, hc, hb⟩ := hopt
  unfold run at hrun
  simp only [hord, htt, hm, hc, hb, Option.getD_none] at hrun
  split at hrun
  · simp at hrun
  · rename_i ts ht
    split at hrun
    · simp at hrun
    · rename_i p hp
      refine ⟨ts, p, ht, hp, by rw [hread]; rfl, ?_⟩
      simp only [show ((1 : Nat) == 0) = false from rfl, Bool.false_eq_true, ite_false] at hrun
      split at hrun
      · simp at hrun
      · rename_i r0 he
        obtain ⟨rs, hrows, hcov, hsound, hdisj⟩ := table_faithful o.filter ht hp (hg ts p ht hp) he
        simp only [C20.retain_any, Bool.false_eq_true, ite_false, ite_true] at hrun
        simp only [blank] at hrows
        split at hrun
        · rename_i rows vl h1 h2
          rw [hrows] at h1
          cases h1
          cases hrun
          exact ⟨hcov, hsound, hdisj⟩
        · simp at hrun


/-- the reader does invert the printer, whatever the run was (names free of the separators) -/
theorem read_render_any (o : Output) (ok : OutputOk o) : readStdout (render o) = some o := read_render o ok

-- non-vacuity: a table with a padded long name, a `-v` line with a starred name and an empty one, `-r` names
def sampleOut : Output :=
  { ordering := ["b", "a'"]
    header := some ["abcdefg", "x", "*"]
    rows := [⟨[.t, .any], true⟩, ⟨[.f, .f], false⟩]
    vlines := [["a", "b*"], [], ["c"]] }

example : (readStdout (render sampleOut)).map (fun o => (o.ordering, o.header, o.rows, o.vlines)) =
    some (sampleOut.ordering, sampleOut.header, sampleOut.rows, sampleOut.vlines) := by
  decide +kernel

end Rsbdd.C10
