/-
C06 — lfp / gfp denote the least / greatest fixed point of a monotone transformer.

Structure:
 1. `Sem`'s clauses for `lfp`/`gfp` (intersection of pre-fixed points / union of post-fixed
    points) *are* the least / greatest fixed point of the body's transformer when that is
    monotone (`sem_lfp_fixed`, `sem_lfp_least`, `sem_gfp_fixed`, `sem_gfp_greatest`) — so
    the specification does not restate the algorithm.
 2. The evaluator's fixed-point case returns a diagram denoting exactly that
    (`evalF_lfp`, `evalF_gfp`; nested and mixed fixed points are covered because the
    soundness theorem is for all formulas).
 3. Scoping: `replaceVar_sem` — substituting the iterate for the bound name has the meaning
    of binding the name; inner quantifiers / fixed points on the same name shadow it, and
    variables quantified inside the body range over the current value of the name.
 4. The library iterator `fp(a, t)` returns the first element of a, t(a), t(t(a)), … that
    `t` maps to itself (`fpIter_first`).
 5. `pos_mono`: a syntactic criterion for monotone bodies.

 6. "Evaluation terminates": `evalF_total` — on every formula whose fixed-point bodies are
    monotone the evaluator returns (within 2^(number of variable occurrences) + 1 rounds per loop,
    recursion depth `depth f`) and the answer denotes the formula; `evalF_total_pos` is the same
    under the syntactic criterion; `evalF_budget` says the round budget is only a budget: a
    larger one never changes an answer, so the unbounded loop of the real code returns that
    answer.  Proof (`Proofs/Termination.lean`): the iterates are canonical diagrams over the
    finitely many variables of the formula and form a chain; a round that does not stop the
    loop changes the number of satisfying assignments over those variables strictly.
-/
import Rsbdd.Thm.C01
import Rsbdd.Proofs.Termination

namespace Rsbdd.C06
open BDD Formula

/-- the meaning of `lfp X # T` is a fixed point of `r ↦ ⟦T⟧[X := r]` -/
theorem sem_lfp_fixed (x : Nat) (t : Formula) (ρ : FEnv) (hm : MonoFn (bodyFn t x ρ)) :
    bodyFn t x ρ (Sem (.fix x false t) ρ) = Sem (.fix x false t) ρ := by
  rw [sem_fix_false]; exact lfpP_fixed hm

/-- … and lies below every pre-fixed point (hence below every other fixed point) -/
theorem sem_lfp_least (x : Nat) (t : Formula) (ρ : FEnv) (r : Pred)
    (hr : Pred.le (bodyFn t x ρ r) r) : Pred.le (Sem (.fix x false t) ρ) r := by
  rw [sem_fix_false]; exact lfpP_least hr

theorem sem_gfp_fixed (x : Nat) (t : Formula) (ρ : FEnv) (hm : MonoFn (bodyFn t x ρ)) :
    bodyFn t x ρ (Sem (.fix x true t) ρ) = Sem (.fix x true t) ρ := by
  rw [sem_fix_true]; exact gfpP_fixed hm

theorem sem_gfp_greatest (x : Nat) (t : Formula) (ρ : FEnv) (r : Pred)
    (hr : Pred.le r (bodyFn t x ρ r)) : Pred.le r (Sem (.fix x true t) ρ) := by
  rw [sem_fix_true]; exact gfpP_greatest hr

/-- the evaluator's answer for `lfp X # T` denotes the least fixed point -/
theorem evalF_lfp (iters fuel : Nat) (x : Nat) (t : Formula) (hg : GoodF (.fix x false t)) (b : BDD)
    (h : evalF iters fuel (.fix x false t) = some b) :
    ROBDD b ∧ den b = lfpP (bodyFn t x FEnv.empty) := by
  have := C01.evalF_sound iters fuel _ hg b h
  exact ⟨this.1, by rw [← sem_fix_false]; exact funext (fun σ => propext (this.2 σ))⟩

/-- the evaluator's answer for `gfp X # T` denotes the greatest fixed point -/
theorem evalF_gfp (iters fuel : Nat) (x : Nat) (t : Formula) (hg : GoodF (.fix x true t)) (b : BDD)
    (h : evalF iters fuel (.fix x true t) = some b) :
    ROBDD b ∧ den b = gfpP (bodyFn t x FEnv.empty) := by
  have := C01.evalF_sound iters fuel _ hg b h
  exact ⟨this.1, by rw [← sem_fix_true]; exact funext (fun σ => propext (this.2 σ))⟩

/-- scoping of the bound name under substitution of the current iterate -/
theorem replaceVar_sem (x : Nat) (b : BDD) (t : Formula) (ρ : FEnv) :
    Sem (replaceVar x (.subtree b) t) ρ = Sem t (ρ.set x (den b)) := sem_replaceVar x b t ρ

/-- an inner quantifier on the same name shadows it -/
theorem shadow_quant (x : Nat) (b : BDD) (q : Quant) (vs : List Nat) (t : Formula) (hx : x ∈ vs) :
    replaceVar x (.subtree b) (.quant q vs t) = .quant q vs t := by
  simp [replaceVar, hx]

/-- an inner fixed point on the same name shadows it -/
theorem shadow_fix (x : Nat) (b : BDD) (i : Bool) (t : Formula) :
    replaceVar x (.subtree b) (.fix x i t) = .fix x i t := by
  simp [replaceVar]

/-- a variable quantified inside the body also ranges over the current value of the bound name -/
theorem quant_ranges_over_iterate (x y : Nat) (b : BDD) (ρ : FEnv) (σ : Asg) (hxy : x ≠ y) :
    Sem (replaceVar x (.subtree b) (.quant .exists_ [y] (.var x))) ρ σ ↔
      ∃ σ', AgreeOff [y] σ σ' ∧ eval b σ' = true := by
  rw [sem_replaceVar]
  have hx : x ∉ [y] := by simpa using hxy
  simp only [Sem, FEnv.remove_set_of_not_mem ρ hx, FEnv.set, if_true, den]

/-- `t` applied `k` times -/
def iter (t : BDD → BDD) : Nat → BDD → BDD
  | 0, a => a
  | k + 1, a => iter t k (t a)

/-- the library iterator returns the first element of a, t(a), t(t(a)), … that `t` maps to itself -/
theorem fpIter_first (t : BDD → BDD) : ∀ (fuel : Nat) (a s : BDD), fpIter t fuel a = some s →
    ∃ k, k < fuel ∧ s = iter t k a ∧ t s = s ∧ ∀ j, j < k → t (iter t j a) ≠ iter t j a := by
  intro fuel
  induction fuel with
  | zero => intro a s h; simp [fpIter] at h
  | succ n ih =>
    intro a s h
    simp only [fpIter] at h
    split at h
    · rename_i he; cases h
      exact ⟨0, Nat.succ_pos _, rfl, he, fun j hj => absurd hj (Nat.not_lt_zero _)⟩
    · rename_i he
      obtain ⟨k, hk, hs, hfix, hfirst⟩ := ih (t a) s h
      refine ⟨k + 1, Nat.succ_lt_succ hk, hs, hfix, fun j hj => ?_⟩
      cases j with
      | zero => exact he
      | succ j => exact hfirst j (Nat.lt_of_succ_lt_succ hj)

/-- … and conversely: if the sequence reaches a fixed point within the budget, it is returned -/
theorem fpIter_complete (t : BDD → BDD) : ∀ (k : Nat) (a : BDD), t (iter t k a) = iter t k a →
    (∀ j, j < k → t (iter t j a) ≠ iter t j a) → ∀ fuel, k < fuel → fpIter t fuel a = some (iter t k a) := by
  intro k
  induction k with
  | zero =>
    intro a hfix _ fuel hf
    cases fuel with
    | zero => exact absurd hf (Nat.not_lt_zero _)
    | succ n => simp only [iter] at hfix; simp [fpIter, iter, hfix]
  | succ k ih =>
    intro a hfix hfirst fuel hf
    cases fuel with
    | zero => exact absurd hf (Nat.not_lt_zero _)
    | succ n =>
      have h0 : t a ≠ a := hfirst 0 (Nat.succ_pos _)
      simp only [fpIter, h0, if_false, iter]
      exact ih (t a) hfix (fun j hj => hfirst (j + 1) (Nat.succ_lt_succ hj)) n (Nat.lt_of_succ_lt_succ hf)

/-- syntactic criterion: bound name under and/or/ite-branches/quantifiers/at-least counting/
even negation ⇒ monotone body -/
theorem pos_mono (x : Nat) (t : Formula) (h : Pos x t) (ρ : FEnv) : MonoFn (bodyFn t x ρ) :=
  monoFn_of_pos h ρ

/-- "evaluation terminates": monotone bodies ⇒ the evaluator returns, and the answer is right -/
theorem evalF_total (f : Formula) (hg : GoodF f) :
    ∃ b, evalF (2 ^ (varsList f).length + 1) (depth f) f = some b ∧
      ROBDD b ∧ ∀ σ, (eval b σ = true ↔ Sem f FEnv.empty σ) :=
  Rsbdd.evalF_total f hg

/-- the same for parser output whose fixed-point names occur positively -/
theorem evalF_total_pos (f : Formula) (hp : C01.PosFix f) :
    ∃ b, evalF (2 ^ (varsList f).length + 1) (depth f) f = some b ∧
      ROBDD b ∧ ∀ σ, (eval b σ = true ↔ Sem f FEnv.empty σ) :=
  Rsbdd.evalF_total f (C01.goodF_of_posFix f hp)

/-- the round budget of the model is only a budget: any larger budget gives the same answer -/
theorem evalF_budget {i i' : Nat} (hle : i ≤ i') (fuel : Nat) (f : Formula) (b : BDD)
    (h : evalF i fuel f = some b) : evalF i' fuel f = some b :=
  evalF_iters_mono hle fuel f b h

-- non-vacuity: positive occurrences under a quantifier, an at-least list, a double
-- negation, an ite branch, and a nested gfp that also mentions the outer name
example : Pos 7 (.bin .or (.quant .exists_ [1] (.bin .and (.var 7) (.var 1)))
    (.ite (.var 2) (.not (.not (.var 7)))
      (.fix 8 true (.bin .and (.var 8) (.cntConst .atLeast [.var 7, .var 3] 1))))) := by
  simp [Pos, Neg, PosL]
example : fpIter (fun x => BDD.or x (BDD.var 1)) 5 F = some (BDD.var 1) := by
  simp [fpIter, BDD.or, BDD.var, mk, mkConst]

end Rsbdd.C06
