/-
C02 — canonical form: equivalent functions are represented identically.

`Reach` is the closure of the leaves and variables under every public operation of the
library (connectives, counting, quantifiers, the fixed-point iterator with any
transformer that itself maps reachable diagrams to reachable diagrams, model, retain).
Every reachable diagram is ordered and reduced; two ordered reduced diagrams are
structurally equal iff they denote the same function.  "In different environments" and
"hash equal": the pure model has no environment (`Thm/C13` relates the environment-
passing model to it), and Rust's derived `Hash` is a function of the structure.
-/
import Rsbdd.Proofs.ModelRetain

namespace Rsbdd.C02
open BDD

/-- two ordered reduced diagrams that denote the same function are the same diagram -/
theorem canonical {a b : BDD} (ha : ROBDD a) (hb : ROBDD b)
    (h : ∀ σ, eval a σ = eval b σ) : a = b :=
  canonical_from ha.1 ha.2 hb.1 hb.2 h

inductive Reach : BDD → Prop
  | const (v : Bool) : Reach (mkConst v)
  | var (s : Nat) : Reach (var s)
  | and {a b} : Reach a → Reach b → Reach (and a b)
  | or {a b} : Reach a → Reach b → Reach (or a b)
  | not {a} : Reach a → Reach (not a)
  | implies {a b} : Reach a → Reach b → Reach (implies a b)
  | ite {a b c} : Reach a → Reach b → Reach c → Reach (ite a b c)
  | eq {a b} : Reach a → Reach b → Reach (eq a b)
  | xor {a b} : Reach a → Reach b → Reach (xor a b)
  | nor {a b} : Reach a → Reach b → Reach (nor a b)
  | nand {a b} : Reach a → Reach b → Reach (nand a b)
  | aln {bs} (n : Int) : (∀ b ∈ bs, Reach b) → Reach (aln bs n)
  | amn {bs} (n : Int) : (∀ b ∈ bs, Reach b) → Reach (amn bs n)
  | exn {bs} (n : Int) : (∀ b ∈ bs, Reach b) → Reach (exn bs n)
  | countLeq {as bs} : (∀ b ∈ as, Reach b) → (∀ b ∈ bs, Reach b) → Reach (countLeq as bs)
  | countLt {as bs} : (∀ b ∈ as, Reach b) → (∀ b ∈ bs, Reach b) → Reach (countLt as bs)
  | countGeq {as bs} : (∀ b ∈ as, Reach b) → (∀ b ∈ bs, Reach b) → Reach (countGeq as bs)
  | countGt {as bs} : (∀ b ∈ as, Reach b) → (∀ b ∈ bs, Reach b) → Reach (countGt as bs)
  | countEq {as bs} : (∀ b ∈ as, Reach b) → (∀ b ∈ bs, Reach b) → Reach (countEq as bs)
  | existsImpl {f} (s : Nat) : Reach f → Reach (existsImpl s f)
  | exists_ {f} (V : List Nat) : Reach f → Reach (exists_ V f)
  | all {f} (V : List Nat) : Reach f → Reach (all V f)
  | fp {a s} (t : BDD → BDD) (fuel : Nat) :
      (∀ x, ROBDD x → ROBDD (t x)) → Reach a → fpIter t fuel a = some s → Reach s
  | model {f} : Reach f → Reach (model f)
  | retain {f} (flt : Filter) : Reach f → Reach (retain f flt)

theorem fpIter_inv {P : BDD → Prop} {t : BDD → BDD} (ht : ∀ x, P x → P (t x)) :
    ∀ (fuel : Nat) (a s : BDD), P a → fpIter t fuel a = some s → P s := by
  intro fuel
  induction fuel with
  | zero => intro a s _ h; simp [fpIter] at h
  | succ n ih =>
    intro a s ha h
    simp only [fpIter] at h
    split at h
    · cases h; exact ha
    · exact ih _ _ (ht a ha) h

/-- every diagram the library hands out is ordered and reduced -/
theorem reach_robdd {b : BDD} (h : Reach b) : ROBDD b := by
  induction h with
  | const v => exact ⟨ordFrom_mkConst 0 v, reduced_mkConst v⟩
  | var s => exact ⟨ordFrom_var 0 s (Nat.zero_le _), reduced_var s⟩
  | and _ _ iha ihb => exact ⟨ordFrom_and iha.1 ihb.1, reduced_and iha.2 ihb.2⟩
  | or _ _ iha ihb => exact ⟨ordFrom_or iha.1 ihb.1, reduced_or iha.2 ihb.2⟩
  | not _ iha => exact ⟨ordFrom_not iha.1, reduced_not iha.2⟩
  | implies _ _ iha ihb => exact ⟨ordFrom_implies iha.1 ihb.1, reduced_implies iha.2 ihb.2⟩
  | ite _ _ _ iha ihb ihc => exact ⟨ordFrom_ite iha.1 ihb.1 ihc.1, reduced_ite iha.2 ihb.2 ihc.2⟩
  | eq _ _ iha ihb => exact ⟨ordFrom_eq iha.1 ihb.1, reduced_eq iha.2 ihb.2⟩
  | xor _ _ iha ihb => exact ⟨ordFrom_xor iha.1 ihb.1, reduced_xor iha.2 ihb.2⟩
  | nor _ _ iha ihb => exact ⟨ordFrom_nor iha.1 ihb.1, reduced_nor iha.2 ihb.2⟩
  | nand _ _ iha ihb => exact ⟨ordFrom_nand iha.1 ihb.1, reduced_nand iha.2 ihb.2⟩
  | aln n _ ih => exact ⟨ordFrom_cmpCount _ (fun b hb => (ih b hb).1) n, reduced_cmpCount _ (fun b hb => (ih b hb).2) n⟩
  | amn n _ ih => exact ⟨ordFrom_cmpCount _ (fun b hb => (ih b hb).1) n, reduced_cmpCount _ (fun b hb => (ih b hb).2) n⟩
  | exn n _ ih => exact ⟨ordFrom_cmpCount _ (fun b hb => (ih b hb).1) n, reduced_cmpCount _ (fun b hb => (ih b hb).2) n⟩
  | countLeq _ _ iha ihb =>
    exact ⟨ordFrom_cmpCountCompare (fun n => ordFrom_cmpCount _ (fun b hb => (ihb b hb).1) n) (fun b hb => (iha b hb).1) 0,
      reduced_cmpCountCompare (fun n => reduced_cmpCount _ (fun b hb => (ihb b hb).2) n) (fun b hb => (iha b hb).2) 0⟩
  | countLt _ _ iha ihb =>
    exact ⟨ordFrom_cmpCountCompare (fun n => ordFrom_cmpCount _ (fun b hb => (ihb b hb).1) n) (fun b hb => (iha b hb).1) 1,
      reduced_cmpCountCompare (fun n => reduced_cmpCount _ (fun b hb => (ihb b hb).2) n) (fun b hb => (iha b hb).2) 1⟩
  | countGeq _ _ iha ihb =>
    exact ⟨ordFrom_cmpCountCompare (fun n => ordFrom_cmpCount _ (fun b hb => (ihb b hb).1) n) (fun b hb => (iha b hb).1) 0,
      reduced_cmpCountCompare (fun n => reduced_cmpCount _ (fun b hb => (ihb b hb).2) n) (fun b hb => (iha b hb).2) 0⟩
  | countGt _ _ iha ihb =>
    exact ⟨ordFrom_cmpCountCompare (fun n => ordFrom_cmpCount _ (fun b hb => (ihb b hb).1) n) (fun b hb => (iha b hb).1) (-1),
      reduced_cmpCountCompare (fun n => reduced_cmpCount _ (fun b hb => (ihb b hb).2) n) (fun b hb => (iha b hb).2) (-1)⟩
  | countEq _ _ iha ihb =>
    exact ⟨ordFrom_and
        (ordFrom_cmpCountCompare (fun n => ordFrom_cmpCount _ (fun b hb => (ihb b hb).1) n) (fun b hb => (iha b hb).1) 0)
        (ordFrom_cmpCountCompare (fun n => ordFrom_cmpCount _ (fun b hb => (ihb b hb).1) n) (fun b hb => (iha b hb).1) 0),
      reduced_and
        (reduced_cmpCountCompare (fun n => reduced_cmpCount _ (fun b hb => (ihb b hb).2) n) (fun b hb => (iha b hb).2) 0)
        (reduced_cmpCountCompare (fun n => reduced_cmpCount _ (fun b hb => (ihb b hb).2) n) (fun b hb => (iha b hb).2) 0)⟩
  | existsImpl s _ ih => exact ⟨ordFrom_existsImpl ih.1, reduced_existsImpl ih.2⟩
  | exists_ V _ ih => exact ⟨ordFrom_exists V ih.1, reduced_exists V ih.2⟩
  | all V _ ih => exact ⟨ordFrom_all V ih.1, reduced_all V ih.2⟩
  | fp t fuel ht _ hs iha => exact fpIter_inv ht fuel _ _ iha hs
  | model _ ih => exact ⟨ordFrom_model ih.1, reduced_model ih.1⟩
  | retain flt _ ih =>
    cases flt with
    | any => exact ih
    | true_ => exact ⟨ordFrom_retainAux _ ih.1, reduced_retainAux _ ih.2⟩
    | false_ => exact ⟨ordFrom_retainAux _ ih.1, reduced_retainAux _ ih.2⟩

/-- `==` (and hence the structural hash) decides functional equality on everything the
library hands out -/
theorem eq_iff_same_function {a b : BDD} (ha : Reach a) (hb : Reach b) :
    a = b ↔ ∀ σ, eval a σ = eval b σ :=
  ⟨fun h _ => by rw [h], canonical (reach_robdd ha) (reach_robdd hb)⟩

/-- a valid function is literally the true leaf -/
theorem valid_is_T {b : BDD} (h : Reach b) : (∀ σ, eval b σ = true) ↔ b = T :=
  ⟨const_true_of_robdd (reach_robdd h).1 (reach_robdd h).2, fun e _ => by rw [e]; rfl⟩

/-- an unsatisfiable function is literally the false leaf -/
theorem unsat_is_F {b : BDD} (h : Reach b) : (∀ σ, eval b σ = false) ↔ b = F :=
  ⟨const_false_of_robdd (reach_robdd h).1 (reach_robdd h).2, fun e _ => by rw [e]; rfl⟩

-- non-vacuity: a reachable diagram that is not a leaf, reached by two different routes
example : Reach (and (var 1) (not (var 3))) := .and (.var 1) (.not (.var 3))
example : and (var 1) (not (var 3)) = not (or (not (var 1)) (var 3)) := by
  simp [BDD.var, BDD.not, BDD.and, BDD.or, mk, mkConst]
example : ROBDD (node (node F 3 T) 1 F) := by decide

end Rsbdd.C02
