/-
C12 — no input makes the parser or the command-line tool panic.

The models of the tokenizer, parser and evaluator are total functions whose only outcomes
are a value or `none` (error / divergence): there is no panic outcome left in them.  What
has to be shown is that the panic-capable constructs that remain in the Rust text
(inventoried in /verif/panic_sites.json and compared with a fresh scan on every run)
cannot fire.  The non-trivial ones:

 * `to_free_index` ("… is not a free variable", index out of bounds): `toFreeIndex_total`
 * `unimplemented!()` for diagram leaves in `var_is_free`: `parse_noLeaf`
 * `n as i64`, `n - 1`, `n + 1` on counting constants: `cntConst_in_range`
 * `panic!("unsupported match")` in `and`/`or`: `three_way_split_total`
 * `"Failed to parse number"`: gone (`parseNumber` reports `none`, the tokenizer an error)

PARTIAL BY NATURE: stack exhaustion on deep recursion and allocator aborts are runtime
behaviour no model exhibits; the correspondence run exercises nesting depth up to 200 and
inputs up to 64 KiB in-process and through the real binary.  The option plumbing of `main`
(widths, statistics, dot identifiers) is argued site by site in panic_sites.json, not proved.
-/
import Rsbdd.Proofs.TableTotal
import Rsbdd.Thm.C05

namespace Rsbdd.C12
open BDD Formula Parser Grammar

/-- the column lookup used by the table / `-v` printers succeeds for every variable the
evaluated diagram tests, for every text and ordering -/
theorem toFreeIndex_total {cs : List Ch} {ord : List (String × Nat)} {ts : List Token}
    {p : ParsedInfo} {iters fuel : Nat} {b : BDD}
    (ht : tokenize cs ord = some ts) (hp : newWithEnv ts = some p)
    (he : evalF iters fuel p.formula = some b) :
    ∀ z ∈ support b, (toFreeIndex p z).isSome = true :=
  Rsbdd.toFreeIndex_total ht hp he

/-- the parser never produces a diagram leaf, so `var_is_free` never meets one -/
theorem parse_noLeaf {ts : List Token} {f : Formula} (h : parseFormula ts = some f) : NoLeaf f := by
  obtain ⟨pre, r, _, hs⟩ := parseFormula_sound' h
  exact sub_noLeaf hs

/-- after the clamp every value converted to `i64` or incremented / decremented lies in
`[0, len + 1]`, hence `n - 1 ≥ -1` and `n + 1 ≤ len + 2`: no overflow for any constant -/
theorem cntConst_in_range (len k : Nat) :
    (0 : Int) ≤ (min k (len + 1) : Nat) ∧ ((min k (len + 1) : Nat) : Int) ≤ len + 1 ∧
    (-1 : Int) ≤ ((min k (len + 1) : Nat) : Int) - 1 ∧ ((min k (len + 1) : Nat) : Int) + 1 ≤ len + 2 := by
  omega

/-- the guarded arms `va < vb`, `vb < va`, `va == vb` of `and` / `or` cover every pair of
choice nodes: the fall-through `panic!` arm is unreachable -/
theorem three_way_split_total (va vb : Nat) : va < vb ∨ vb < va ∨ va = vb := by omega

/-- a digit run that does not denote a `usize` is an error, not a panic -/
theorem number_total (ds : List Ch) : parseNumber ds = none ∨ ∃ n, parseNumber ds = some n ∧ n < 2 ^ 64 := by
  cases h : parseNumber ds with
  | none => exact Or.inl rfl
  | some n =>
    refine Or.inr ⟨n, rfl, ?_⟩
    unfold parseNumber at h
    split at h
    · simp only at h
      split at h
      · rename_i hlt; cases h; exact hlt
      · simp at h
    · simp at h

/-- the pipeline outcome of the model for any text: tokens or an error, a tree or an error -/
theorem pipeline_outcomes (cs : List Ch) (ord : List (String × Nat)) :
    tokenize cs ord = none ∨ ∃ ts, tokenize cs ord = some ts ∧
      (parseFormula ts = none ∨ ∃ f, parseFormula ts = some f ∧ NoLeaf f) := by
  cases h : tokenize cs ord with
  | none => exact Or.inl rfl
  | some ts =>
    refine Or.inr ⟨ts, rfl, ?_⟩
    cases h2 : parseFormula ts with
    | none => exact Or.inl rfl
    | some f => exact Or.inr ⟨f, rfl, parse_noLeaf h2⟩

-- non-vacuity: the extreme constants
example : parseNumber [⟨'9', .digit⟩, ⟨'9', .digit⟩] = some 99 := by rfl
example : parseNumber [⟨'٣', .digit⟩] = none := by rfl

end Rsbdd.C12
