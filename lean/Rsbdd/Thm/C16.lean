/-
C16 — max_clique_gen emits a formula whose models are exactly the (maximum) cliques.

`Model/Gen/Clique.lean` mirrors the generator (after the `fix:` commit that chooses a copy
prefix no vertex name starts a collision with).  The iteration order of the vertex set is
a parameter `vs`; the theorems hold for every enumeration.

PROVED, for every edge list and every enumeration `vs`:
 * `mem_complement_directed`: without `-u` the constrained ordered pairs are exactly the
   pairs of distinct vertices with no edge in that direction — so a pair is left
   unconstrained iff both directions are present;
 * `sem_all_iff`: the `--all` formula holds iff no constrained pair is selected together;
 * `clique_all_directed`: hence (without `-u`) its models, read as vertex sets, are exactly
   the cliques — including the empty set and singletons.

FULL STATEMENTS (not proved): the `-u` case of the complement (one orientation kept, either
direction connects) and `clique_max` (the quantified "no larger clique" part; needs the
fresh-prefix hypothesis).  Both are decided on every generated graph by the correspondence
run: semantic equality of the real output with the model's formula and model-set equality
with brute-force (maximum) cliques, for all four flag combinations.
-/
import Rsbdd.Proofs.GenSem
import Rsbdd.Model.Gen.Clique

namespace Rsbdd.C16
open BDD Gen.Clique

theorem innerStep_directed (edges : List (Nat × Nat)) (v1 v2 : Nat) (acc : List (Nat × Nat)) :
    innerStep edges false v1 acc v2 =
      if v1 ≠ v2 ∧ (v1, v2) ∉ edges then acc ++ [(v1, v2)] else acc := by
  unfold innerStep
  by_cases h1 : v1 ≠ v2
  · by_cases h2 : (v1, v2) ∈ edges
    · have : edges.contains (v1, v2) = true := by simpa using h2
      simp [h1, h2, this]
    · have : edges.contains (v1, v2) = false := by simpa using h2
      simp [h1, h2, this]
  · simp [h1]

/-- the inner loop, directed case: appends the non-edges out of `v1` -/
theorem inner_directed (edges : List (Nat × Nat)) (v1 : Nat) : ∀ (vs : List Nat) (acc : List (Nat × Nat)) (p : Nat × Nat),
    p ∈ vs.foldl (innerStep edges false v1) acc ↔
      p ∈ acc ∨ (p.1 = v1 ∧ p.2 ∈ vs ∧ v1 ≠ p.2 ∧ (v1, p.2) ∉ edges) := by
  intro vs
  induction vs with
  | nil => intro acc p; simp
  | cons v vs ih =>
    intro acc p
    rw [List.foldl_cons, ih, innerStep_directed]
    by_cases hc : v1 ≠ v ∧ (v1, v) ∉ edges
    · rw [if_pos hc]
      simp only [List.mem_append, List.mem_cons, List.not_mem_nil, or_false]
      constructor
      · rintro ((h | rfl) | ⟨h1, h2, h3, h4⟩)
        · exact Or.inl h
        · exact Or.inr ⟨rfl, Or.inl rfl, hc.1, hc.2⟩
        · exact Or.inr ⟨h1, Or.inr h2, h3, h4⟩
      · rintro (h | ⟨h1, h2 | h2, h3, h4⟩)
        · exact Or.inl (Or.inl h)
        · left; right
          cases p with
          | mk a b => simp at h1 h2; rw [h1, h2]
        · exact Or.inr ⟨h1, h2, h3, h4⟩
    · rw [if_neg hc]
      simp only [List.mem_cons]
      constructor
      · rintro (h | ⟨h1, h2, h3, h4⟩)
        · exact Or.inl h
        · exact Or.inr ⟨h1, Or.inr h2, h3, h4⟩
      · rintro (h | ⟨h1, h2 | h2, h3, h4⟩)
        · exact Or.inl h
        · exfalso; apply hc; rw [← h2]; exact ⟨h3, h4⟩
        · exact Or.inr ⟨h1, h2, h3, h4⟩

theorem mem_complement_directed (edges : List (Nat × Nat)) (vs : List Nat) (a b : Nat) :
    (a, b) ∈ complement edges vs false ↔ a ∈ vs ∧ b ∈ vs ∧ a ≠ b ∧ (a, b) ∉ edges := by
  unfold complement
  have key : ∀ (us : List Nat) (acc : List (Nat × Nat)),
      (a, b) ∈ us.foldl (fun acc v1 => vs.foldl (innerStep edges false v1) acc) acc ↔
      (a, b) ∈ acc ∨ (a ∈ us ∧ b ∈ vs ∧ a ≠ b ∧ (a, b) ∉ edges) := by
    intro us
    induction us with
    | nil => intro acc; simp
    | cons u us ih =>
      intro acc
      rw [List.foldl_cons, ih, inner_directed]
      simp only [List.mem_cons]
      constructor
      · rintro ((h | ⟨h1, h2, h3, h4⟩) | h)
        · exact Or.inl h
        · exact Or.inr ⟨Or.inl h1, h2, by rw [h1]; exact h3, by rw [h1]; exact h4⟩
        · exact Or.inr ⟨Or.inr h.1, h.2⟩
      · rintro (h | ⟨hu | hu, hb, hne, he⟩)
        · exact Or.inl (Or.inl h)
        · exact Or.inl (Or.inr ⟨hu, hb, by rw [← hu]; exact hne, by rw [← hu]; exact he⟩)
        · exact Or.inr ⟨hu, hb, hne, he⟩
  have := key vs []
  simpa using this

/-- the `--all` formula: no constrained pair is selected together -/
theorem sem_all_iff (edges : List (Nat × Nat)) (vs : List Nat) (u : Bool) (vid cid : Nat → Nat) (σ : Asg) :
    Sem (formula edges vs u true vid cid) FEnv.empty σ ↔
      ∀ p ∈ complement edges vs u, ¬ (σ (vid p.1) = true ∧ σ (vid p.2) = true) := by
  simp only [formula, if_true, conj]
  rw [sem_conj]
  by_cases hc : (complement edges vs u).isEmpty = true
  · have : complement edges vs u = [] := by simpa using hc
    simp [nonEdgeConstraints, this, Sem]
  · simp only [nonEdgeConstraints, hc, Bool.false_eq_true, if_false, List.mem_map, forall_exists_index, and_imp]
    constructor
    · intro h p hp
      have := h _ p hp rfl
      simpa [Sem, BinOp.sem, FEnv.empty] using this
    · rintro h f p hp rfl
      have := h p hp
      simpa [Sem, BinOp.sem, FEnv.empty] using this

/-- read as a vertex set, without `-u`: the models of the `--all` formula are exactly the
cliques (a pair is adjacent when both directions are present) -/
theorem clique_all_directed (edges : List (Nat × Nat)) (vs : List Nat) (vid cid : Nat → Nat) (σ : Asg) :
    Sem (formula edges vs false true vid cid) FEnv.empty σ ↔
      ∀ a ∈ vs, ∀ b ∈ vs, a ≠ b → σ (vid a) = true → σ (vid b) = true →
        ((a, b) ∈ edges ∧ (b, a) ∈ edges) := by
  rw [sem_all_iff]
  constructor
  · intro h a ha b hb hne sa sb
    constructor
    · apply Classical.byContradiction; intro he
      exact h (a, b) ((mem_complement_directed edges vs a b).mpr ⟨ha, hb, hne, he⟩) ⟨sa, sb⟩
    · apply Classical.byContradiction; intro he
      exact h (b, a) ((mem_complement_directed edges vs b a).mpr ⟨hb, ha, fun e => hne e.symm, he⟩) ⟨sb, sa⟩
  · intro h p hp ⟨s1, s2⟩
    obtain ⟨ha, hb, hne, he⟩ := (mem_complement_directed edges vs p.1 p.2).mp hp
    exact he (h p.1 ha p.2 hb hne s1 s2).1

-- non-vacuity: a one-directional edge is no adjacency without -u, either direction is with -u
example : complement [(0, 1)] [0, 1] false = [(1, 0)] := by decide
example : complement [(0, 1)] [0, 1] true = [] := by decide
example : complement [(0, 1)] [0, 1, 2] true = [(0, 2), (1, 2)] := by decide

end Rsbdd.C16
