/-
C16 — max_clique_gen emits a formula whose models are exactly the (maximum) cliques.

`Model/Gen/Clique.lean` mirrors the generator (after the `fix:` commit that chooses a copy
prefix no vertex name starts a collision with).  The iteration order of the vertex set is
a parameter `vs`; the theorems hold for every enumeration.

PROVED, for every edge list and every enumeration `vs`:
 * `mem_complement_directed`: without `-u` the constrained ordered pairs are exactly the
   pairs of distinct vertices with no edge in that direction — so a pair is left
   unconstrained iff both directions are present;
 * `sem_all_iff`: the `--all` formula holds iff no constrained pair is selected together;
 * `clique_all_directed`: hence (without `-u`) its models, read as vertex sets, are exactly
   the cliques — including the empty set and singletons.

 * `complement_undirected_sound` / `complement_undirected_complete`: with `-u` every listed pair
   is a pair of distinct vertices with no edge in either direction, and every such pair is
   listed in one orientation (the `edges_complement.contains((v2, v1))` test only suppresses the
   mirror image);
 * `clique_all_undirected`: hence with `-u --all` the models are exactly the cliques of the
   graph in which an edge given in either direction connects its endpoints;
 * `clique_max` (the FULL STATEMENT without `--all`, both `-u` and not): the models are exactly
   the cliques S such that no clique T has more vertices — under the hypotheses that the copy
   variables are pairwise distinct and none of them is a vertex variable, which is what the
   fresh prefix of the `fix:` commit establishes (before it, the graph {a, v_a} violated it);
 * `clique_solved`: the evaluator terminates on the emitted formula and the diagram it returns
   is true exactly on the maximum cliques (composition with C01).

"A vertex whose variable the formula does not mention is unconstrained" is visible in the
statements: they constrain σ only at `vid v` for `v ∈ vs`.

Not proved: that the bytes the binary writes parse to `Clique.formula` for the hash set's
iteration order (decided per generated graph by the correspondence run — semantic equality
of the real output with the model's formula, and model-set equality with brute-force
(maximum) cliques, for all four flag combinations).
-/
import Rsbdd.Proofs.GenSem
import Rsbdd.Proofs.SemSubst
import Rsbdd.Proofs.GenGood
import Rsbdd.Model.Gen.Clique

namespace Rsbdd.C16
open BDD Gen.Clique

theorem innerStep_directed (edges : List (Nat × Nat)) (v1 v2 : Nat) (acc : List (Nat × Nat)) :
    innerStep edges false v1 acc v2 =
      if v1 ≠ v2 ∧ (v1, v2) ∉ edges then acc ++ [(v1, v2)] else acc := by
  unfold innerStep
  by_cases h1 : v1 ≠ v2
  · by_cases h2 : (v1, v2) ∈ edges
    · have : edges.contains (v1, v2) = true := by simpa using h2
      simp [h1, h2, this]
    · have : edges.contains (v1, v2) = false := by simpa using h2
      simp [h1, h2, this]
  · simp [h1]

/-- the inner loop, directed case: appends the non-edges out of `v1` -/
theorem inner_directed (edges : List (Nat × Nat)) (v1 : Nat) : ∀ (vs : List Nat) (acc : List (Nat × Nat)) (p : Nat × Nat),
    p ∈ vs.foldl (innerStep edges false v1) acc ↔
      p ∈ acc ∨ (p.1 = v1 ∧ p.2 ∈ vs ∧ v1 ≠ p.2 ∧ (v1, p.2) ∉ edges) := by
  intro vs
  induction vs with
  | nil => intro acc p; simp
  | cons v vs ih =>
    intro acc p
    rw [List.foldl_cons, ih, innerStep_directed]
    by_cases hc : v1 ≠ v ∧ (v1, v) ∉ edges
    · rw [if_pos hc]
      simp only [List.mem_append, List.mem_cons, List.not_mem_nil, or_false]
      constructor
      · rintro ((h | rfl) | ⟨h1, h2, h3, h4⟩)
        · exact Or.inl h
        · exact Or.inr ⟨rfl, Or.inl rfl, hc.1, hc.2⟩
        · exact Or.inr ⟨h1, Or.inr h2, h3, h4⟩
      · rintro (h | ⟨h1, h2 | h2, h3, h4⟩)
        · exact Or.inl (Or.inl h)
        · left; right
          cases p with
          | mk a b => simp at h1 h2; rw [h1, h2]
        · exact Or.inr ⟨h1, h2, h3, h4⟩
    · rw [if_neg hc]
      simp only [List.mem_cons]
      constructor
      · rintro (h | ⟨h1, h2, h3, h4⟩)
        · exact Or.inl h
        · exact Or.inr ⟨h1, Or.inr h2, h3, h4⟩
      · rintro (h | ⟨h1, h2 | h2, h3, h4⟩)
        · exact Or.inl h
        · exfalso; apply hc; rw [← h2]; exact ⟨h3, h4⟩
        · exact Or.inr ⟨h1, h2, h3, h4⟩

theorem mem_complement_directed (edges : List (Nat × Nat)) (vs : List Nat) (a b : Nat) :
    (a, b) ∈ complement edges vs false ↔ a ∈ vs ∧ b ∈ vs ∧ a ≠ b ∧ (a, b) ∉ edges := by
  unfold complement
  have key : ∀ (us : List Nat) (acc : List (Nat × Nat)),
      (a, b) ∈ us.foldl (fun acc v1 => vs.foldl (innerStep edges false v1) acc) acc ↔
      (a, b) ∈ acc ∨ (a ∈ us ∧ b ∈ vs ∧ a ≠ b ∧ (a, b) ∉ edges) := by
    intro us
    induction us with
    | nil => intro acc; simp
    | cons u us ih =>
      intro acc
      rw [List.foldl_cons, ih, inner_directed]
      simp only [List.mem_cons]
      constructor
      · rintro ((h | ⟨h1, h2, h3, h4⟩) | h)
        · exact Or.inl h
        · exact Or.inr ⟨Or.inl h1, h2, by rw [h1]; exact h3, by rw [h1]; exact h4⟩
        · exact Or.inr ⟨Or.inr h.1, h.2⟩
      · rintro (h | ⟨hu | hu, hb, hne, he⟩)
        · exact Or.inl (Or.inl h)
        · exact Or.inl (Or.inr ⟨hu, hb, by rw [← hu]; exact hne, by rw [← hu]; exact he⟩)
        · exact Or.inr ⟨hu, hb, hne, he⟩
  have := key vs []
  simpa using this

/-- the `--all` formula: no constrained pair is selected together -/
theorem sem_all_iff (edges : List (Nat × Nat)) (vs : List Nat) (u : Bool) (vid cid : Nat → Nat) (σ : Asg) :
    Sem (formula edges vs u true vid cid) FEnv.empty σ ↔
      ∀ p ∈ complement edges vs u, ¬ (σ (vid p.1) = true ∧ σ (vid p.2) = true) := by
  simp only [formula, if_true, conj]
  rw [sem_conj]
  by_cases hc : (complement edges vs u).isEmpty = true
  · have : complement edges vs u = [] := by simpa using hc
    simp [nonEdgeConstraints, this, Sem]
  · simp only [nonEdgeConstraints, hc, Bool.false_eq_true, if_false, List.mem_map, forall_exists_index, and_imp]
    constructor
    · intro h p hp
      have := h _ p hp rfl
      simpa [Sem, BinOp.sem, FEnv.empty] using this
    · rintro h f p hp rfl
      have := h p hp
      simpa [Sem, BinOp.sem, FEnv.empty] using this

/-- read as a vertex set, without `-u`: the models of the `--all` formula are exactly the
cliques (a pair is adjacent when both directions are present) -/
theorem clique_all_directed (edges : List (Nat × Nat)) (vs : List Nat) (vid cid : Nat → Nat) (σ : Asg) :
    Sem (formula edges vs false true vid cid) FEnv.empty σ ↔
      ∀ a ∈ vs, ∀ b ∈ vs, a ≠ b → σ (vid a) = true → σ (vid b) = true →
        ((a, b) ∈ edges ∧ (b, a) ∈ edges) := by
  rw [sem_all_iff]
  constructor
  · intro h a ha b hb hne sa sb
    constructor
    · apply Classical.byContradiction; intro he
      exact h (a, b) ((mem_complement_directed edges vs a b).mpr ⟨ha, hb, hne, he⟩) ⟨sa, sb⟩
    · apply Classical.byContradiction; intro he
      exact h (b, a) ((mem_complement_directed edges vs b a).mpr ⟨hb, ha, fun e => hne e.symm, he⟩) ⟨sb, sa⟩
  · intro h p hp ⟨s1, s2⟩
    obtain ⟨ha, hb, hne, he⟩ := (mem_complement_directed edges vs p.1 p.2).mp hp
    exact he (h p.1 ha p.2 hb hne s1 s2).1

-- non-vacuity: a one-directional edge is no adjacency without -u, either direction is with -u
example : complement [(0, 1)] [0, 1] false = [(1, 0)] := by decide
example : complement [(0, 1)] [0, 1] true = [] := by decide
example : complement [(0, 1)] [0, 1, 2] true = [(0, 2), (1, 2)] := by decide


/-! ### the complement under `-u` -/

/-- not adjacent in the undirected reading: distinct and no edge in either direction -/
def NonAdj (edges : List (Nat × Nat)) (a b : Nat) : Prop := a ≠ b ∧ (a, b) ∉ edges ∧ (b, a) ∉ edges

theorem innerStep_mono (edges : List (Nat × Nat)) (u : Bool) (v1 v2 : Nat) (acc : List (Nat × Nat)) (p : Nat × Nat)
    (h : p ∈ acc) : p ∈ innerStep edges u v1 acc v2 := by
  unfold innerStep
  split
  · split
    · split <;> simp [h]
    · split <;> simp [h]
  · exact h

theorem inner_mono (edges : List (Nat × Nat)) (u : Bool) (v1 : Nat) (vs : List Nat) :
    ∀ (acc : List (Nat × Nat)) (p : Nat × Nat), p ∈ acc → p ∈ vs.foldl (innerStep edges u v1) acc := by
  induction vs with
  | nil => intro acc p h; exact h
  | cons v vs ih => intro acc p h; exact ih _ p (innerStep_mono edges u v1 v acc p h)

theorem outer_mono (edges : List (Nat × Nat)) (u : Bool) (vs : List Nat) (us : List Nat) :
    ∀ (acc : List (Nat × Nat)) (p : Nat × Nat), p ∈ acc →
      p ∈ us.foldl (fun acc v1 => vs.foldl (innerStep edges u v1) acc) acc := by
  induction us with
  | nil => intro acc p h; exact h
  | cons v us ih => intro acc p h; exact ih _ p (inner_mono edges u v vs acc p h)

/-- one step under `-u`: a non-adjacent pair ends up in the list in one orientation -/
theorem innerStep_undirected_complete (edges : List (Nat × Nat)) (v1 v2 : Nat) (acc : List (Nat × Nat))
    (h : NonAdj edges v1 v2) :
    (v1, v2) ∈ innerStep edges true v1 acc v2 ∨ (v2, v1) ∈ innerStep edges true v1 acc v2 := by
  obtain ⟨hne, h1, h2⟩ := h
  have e1 : edges.contains (v1, v2) = false := by simpa using h1
  have e2 : edges.contains (v2, v1) = false := by simpa using h2
  unfold innerStep
  simp only [hne, ne_eq, not_false_eq_true, if_true, e1, e2, Bool.false_or]
  by_cases hc : (v2, v1) ∈ acc
  · simp [hc]
  · simp [hc]

/-- one step under `-u`: whatever is added is a non-adjacent pair `(v1, v2)` -/
theorem innerStep_undirected_sound (edges : List (Nat × Nat)) (v1 v2 : Nat) (acc : List (Nat × Nat)) (p : Nat × Nat)
    (h : p ∈ innerStep edges true v1 acc v2) : p ∈ acc ∨ (p = (v1, v2) ∧ NonAdj edges v1 v2) := by
  unfold innerStep at h
  by_cases hne : v1 = v2
  · simp [hne] at h; exact Or.inl h
  · simp only [ne_eq, hne, not_false_eq_true, if_true] at h
    split at h
    · rename_i hc
      simp only [Bool.not_eq_true', Bool.or_eq_false_iff, List.contains_eq_mem, decide_eq_false_iff_not] at hc
      simp only [List.mem_append, List.mem_cons, List.not_mem_nil, or_false] at h
      rcases h with h | h
      · exact Or.inl h
      · exact Or.inr ⟨h, hne, hc.1.1, hc.1.2⟩
    · exact Or.inl h

theorem inner_undirected_sound (edges : List (Nat × Nat)) (v1 : Nat) (vs : List Nat) :
    ∀ (acc : List (Nat × Nat)) (p : Nat × Nat), p ∈ vs.foldl (innerStep edges true v1) acc →
      p ∈ acc ∨ (p.1 = v1 ∧ p.2 ∈ vs ∧ NonAdj edges p.1 p.2) := by
  induction vs with
  | nil => intro acc p h; exact Or.inl h
  | cons v vs ih =>
    intro acc p h
    rw [List.foldl_cons] at h
    rcases ih _ p h with h' | ⟨h1, h2, h3⟩
    · rcases innerStep_undirected_sound edges v1 v acc p h' with h'' | ⟨rfl, hn⟩
      · exact Or.inl h''
      · exact Or.inr ⟨rfl, by simp, hn⟩
    · exact Or.inr ⟨h1, by simp [h2], h3⟩

theorem inner_undirected_complete (edges : List (Nat × Nat)) (v1 : Nat) (vs : List Nat) :
    ∀ (acc : List (Nat × Nat)) (v2 : Nat), v2 ∈ vs → NonAdj edges v1 v2 →
      (v1, v2) ∈ vs.foldl (innerStep edges true v1) acc ∨ (v2, v1) ∈ vs.foldl (innerStep edges true v1) acc := by
  induction vs with
  | nil => intro acc v2 h; cases h
  | cons v vs ih =>
    intro acc v2 hv hn
    rw [List.foldl_cons]
    by_cases hvs : v2 ∈ vs
    · exact ih _ v2 hvs hn
    · have : v2 = v := by simpa [hvs] using hv
      subst this
      rcases innerStep_undirected_complete edges v1 v2 acc hn with h | h
      · exact Or.inl (inner_mono edges true v1 vs _ _ h)
      · exact Or.inr (inner_mono edges true v1 vs _ _ h)

/-- every pair the `-u` complement lists is a non-adjacent pair of vertices -/
theorem complement_undirected_sound (edges : List (Nat × Nat)) (vs : List Nat) (a b : Nat)
    (h : (a, b) ∈ complement edges vs true) : a ∈ vs ∧ b ∈ vs ∧ NonAdj edges a b := by
  unfold complement at h
  have key : ∀ (us : List Nat) (acc : List (Nat × Nat)),
      (a, b) ∈ us.foldl (fun acc v1 => vs.foldl (innerStep edges true v1) acc) acc →
      (a, b) ∈ acc ∨ (a ∈ us ∧ b ∈ vs ∧ NonAdj edges a b) := by
    intro us
    induction us with
    | nil => intro acc h; exact Or.inl h
    | cons u us ih =>
      intro acc h
      rw [List.foldl_cons] at h
      rcases ih _ h with h' | ⟨h1, h2⟩
      · rcases inner_undirected_sound edges u vs acc (a, b) h' with h'' | ⟨h1, h2, h3⟩
        · exact Or.inl h''
        · exact Or.inr ⟨by simp at h1; simp [h1], h2, h3⟩
      · exact Or.inr ⟨by simp [h1], h2⟩
  rcases key vs [] h with h' | h'
  · cases h'
  · exact h'

/-- every non-adjacent pair of vertices is listed by the `-u` complement in one orientation -/
theorem complement_undirected_complete (edges : List (Nat × Nat)) (vs : List Nat) (a b : Nat)
    (ha : a ∈ vs) (hb : b ∈ vs) (hn : NonAdj edges a b) :
    (a, b) ∈ complement edges vs true ∨ (b, a) ∈ complement edges vs true := by
  unfold complement
  have key : ∀ (us : List Nat) (acc : List (Nat × Nat)), a ∈ us →
      (a, b) ∈ us.foldl (fun acc v1 => vs.foldl (innerStep edges true v1) acc) acc ∨
      (b, a) ∈ us.foldl (fun acc v1 => vs.foldl (innerStep edges true v1) acc) acc := by
    intro us
    induction us with
    | nil => intro acc h; cases h
    | cons u us ih =>
      intro acc h
      rw [List.foldl_cons]
      by_cases hus : a ∈ us
      · exact ih _ hus
      · have : a = u := by simpa [hus] using h
        subst this
        rcases inner_undirected_complete edges a vs acc b hb hn with h' | h'
        · exact Or.inl (outer_mono edges true vs us _ _ h')
        · exact Or.inr (outer_mono edges true vs us _ _ h')
  exact key vs [] ha

/-- read as a vertex set, with `-u`: the models of the `--all` formula are exactly the cliques
(a pair is adjacent when an edge is given in either direction) -/
theorem clique_all_undirected (edges : List (Nat × Nat)) (vs : List Nat) (vid cid : Nat → Nat) (σ : Asg) :
    Sem (formula edges vs true true vid cid) FEnv.empty σ ↔
      ∀ a ∈ vs, ∀ b ∈ vs, a ≠ b → σ (vid a) = true → σ (vid b) = true →
        ((a, b) ∈ edges ∨ (b, a) ∈ edges) := by
  rw [sem_all_iff]
  constructor
  · intro h a ha b hb hne sa sb
    apply Classical.byContradiction; intro he
    have hn : NonAdj edges a b := ⟨hne, fun e => he (Or.inl e), fun e => he (Or.inr e)⟩
    rcases complement_undirected_complete edges vs a b ha hb hn with h' | h'
    · exact h _ h' ⟨sa, sb⟩
    · exact h _ h' ⟨sb, sa⟩
  · intro h p hp ⟨s1, s2⟩
    obtain ⟨ha, hb, hne, h1, h2⟩ := complement_undirected_sound edges vs p.1 p.2 hp
    rcases h p.1 ha p.2 hb hne s1 s2 with e | e
    · exact h1 e
    · exact h2 e


/-! ### maximum cliques (without `--all`) -/

/-- adjacency as the property reads the edge list: with `-u` either direction connects,
without it both directions must be present -/
def Adj (edges : List (Nat × Nat)) (u : Bool) (a b : Nat) : Prop :=
  if u then (a, b) ∈ edges ∨ (b, a) ∈ edges else (a, b) ∈ edges ∧ (b, a) ∈ edges

/-- `S` (a membership test on vertices) is a clique of the graph on `vs` -/
def IsClique (edges : List (Nat × Nat)) (u : Bool) (vs : List Nat) (S : Nat → Bool) : Prop :=
  ∀ a ∈ vs, ∀ b ∈ vs, a ≠ b → S a = true → S b = true → Adj edges u a b

/-- "no listed pair is selected together" is "the selection is a clique" -/
theorem complement_clique (edges : List (Nat × Nat)) (vs : List Nat) (u : Bool) (S : Nat → Bool) :
    (∀ p ∈ complement edges vs u, ¬ (S p.1 = true ∧ S p.2 = true)) ↔ IsClique edges u vs S := by
  cases u with
  | false =>
    simp only [IsClique, Adj, Bool.false_eq_true, if_false]
    constructor
    · intro h a ha b hb hne sa sb
      constructor
      · apply Classical.byContradiction; intro he
        exact h (a, b) ((mem_complement_directed edges vs a b).mpr ⟨ha, hb, hne, he⟩) ⟨sa, sb⟩
      · apply Classical.byContradiction; intro he
        exact h (b, a) ((mem_complement_directed edges vs b a).mpr ⟨hb, ha, fun e => hne e.symm, he⟩) ⟨sb, sa⟩
    · intro h p hp ⟨s1, s2⟩
      obtain ⟨ha, hb, hne, he⟩ := (mem_complement_directed edges vs p.1 p.2).mp hp
      exact he (h p.1 ha p.2 hb hne s1 s2).1
  | true =>
    simp only [IsClique, Adj, if_true]
    constructor
    · intro h a ha b hb hne sa sb
      apply Classical.byContradiction; intro he
      have hn : NonAdj edges a b := ⟨hne, fun e => he (Or.inl e), fun e => he (Or.inr e)⟩
      rcases complement_undirected_complete edges vs a b ha hb hn with h' | h'
      · exact h _ h' ⟨sa, sb⟩
      · exact h _ h' ⟨sb, sa⟩
    · intro h p hp ⟨s1, s2⟩
      obtain ⟨ha, hb, hne, h1, h2⟩ := complement_undirected_sound edges vs p.1 p.2 hp
      rcases h p.1 ha p.2 hb hne s1 s2 with e | e
      · exact h1 e
      · exact h2 e

/-- the conjuncts `-(a & b)` (or the single `true`) hold iff no listed pair is selected together -/
theorem sem_nonEdge (comp : List (Nat × Nat)) (var : Nat → Nat) (σ : Asg) :
    (∀ f ∈ nonEdgeConstraints comp var, Sem f FEnv.empty σ) ↔
      ∀ p ∈ comp, ¬ (σ (var p.1) = true ∧ σ (var p.2) = true) := by
  by_cases hc : comp.isEmpty = true
  · have : comp = [] := by simpa using hc
    simp [nonEdgeConstraints, this, Sem]
  · simp only [nonEdgeConstraints, hc, Bool.false_eq_true, if_false, List.mem_map, forall_exists_index, and_imp]
    constructor
    · intro h p hp
      have := h _ p hp rfl
      simpa [Sem, BinOp.sem, FEnv.empty] using this
    · rintro h f p hp rfl
      have := h p hp
      simpa [Sem, BinOp.sem, FEnv.empty] using this

theorem sem_conj_last (fs : List Formula) (last : Formula) (ρ : FEnv) (σ : Asg) :
    Sem (conj fs last) ρ σ ↔ (∀ f ∈ fs, Sem f ρ σ) ∧ Sem last ρ σ := by
  unfold conj
  induction fs with
  | nil => simp
  | cons f fs ih => simp [Sem, BinOp.sem, ih, and_assoc]

/-- the antecedent of the implication is the conjunction of all its conjuncts -/
theorem sem_body (copies : List Formula) (ρ : FEnv) (σ : Asg) :
    Sem (antecedent copies) ρ σ ↔ ∀ f ∈ copies, Sem f ρ σ := by
  unfold antecedent
  cases h : copies.reverse with
  | nil =>
    have : copies = [] := by simpa using h
    simp [this, Sem]
  | cons last restRev =>
    have : copies = restRev.reverse ++ [last] := by
      have := congrArg List.reverse h
      simpa using this
    simp only [sem_conj_last, this, List.mem_append, List.mem_cons, List.not_mem_nil, or_false]
    constructor
    · rintro ⟨h1, h2⟩ f (hf | rfl)
      · exact h1 f hf
      · exact h2
    · intro h'
      exact ⟨fun f hf => h' f (Or.inl hf), h' last (Or.inr rfl)⟩

theorem filter_length_congr {vs : List Nat} {p q : Nat → Bool} (h : ∀ v ∈ vs, p v = q v) :
    (vs.filter p).length = (vs.filter q).length := by
  rw [List.filter_congr h]

/-- the models of the emitted formula (without `--all`), read as vertex sets, are exactly the
cliques of maximum cardinality.  Hypotheses: the enumeration of the vertices has no
duplicates, distinct vertices have distinct variables and distinct copies, and no copy is a
vertex variable (the fresh prefix chosen by the generator). -/
theorem clique_max (edges : List (Nat × Nat)) (vs : List Nat) (u : Bool) (vid cid : Nat → Nat) (σ : Asg)
    (hcid : ∀ a ∈ vs, ∀ b ∈ vs, cid a = cid b → a = b)
    (hdisj : ∀ a ∈ vs, ∀ b ∈ vs, vid a ≠ cid b) :
    Sem (formula edges vs u false vid cid) FEnv.empty σ ↔
      IsClique edges u vs (fun v => σ (vid v)) ∧
      ∀ T : Nat → Bool, IsClique edges u vs T →
        (vs.filter T).length ≤ (vs.filter (fun v => σ (vid v))).length := by
  simp only [formula, Bool.false_eq_true, if_false]
  rw [sem_conj_last, sem_nonEdge, complement_clique edges vs u (fun v => σ (vid v))]
  apply and_congr_right
  intro _
  simp only [Sem, FEnv.empty_remove, BinOp.sem]
  have cnt : ∀ σ' : Asg, (∃ k₁ k₂, SemCount (vs.map (fun v => Formula.var (vid v))) FEnv.empty σ' k₁ ∧
      SemCount (vs.map (fun v => Formula.var (cid v))) FEnv.empty σ' k₂ ∧ CntOp.sem .atLeast k₁ k₂) ↔
      (vs.filter (fun v => σ' (cid v))).length ≤ (vs.filter (fun v => σ' (vid v))).length := by
    intro σ'
    have e1 : vs.map (fun v => Formula.var (vid v)) = (vs.map vid).map Formula.var := by simp
    have e2 : vs.map (fun v => Formula.var (cid v)) = (vs.map cid).map Formula.var := by simp
    rw [e1, e2]
    constructor
    · rintro ⟨k₁, k₂, h1, h2, h3⟩
      rw [semCount_vars] at h1 h2
      rw [trueCount_map] at h1 h2
      simp only [CntOp.sem] at h3
      omega
    · intro h
      refine ⟨_, _, (semCount_vars _ _ _).mpr rfl, (semCount_vars _ _ _).mpr rfl, ?_⟩
      simp only [CntOp.sem, trueCount_map]
      exact h
  constructor
  · intro h T hT
    -- the copies take the values of T, everything else keeps its value
    let σ' : Asg := fun x => if x ∈ vs.map cid then
        (match vs.find? (fun v => cid v == x) with
          | some v => T v
          | none => false)
      else σ x
    have hag : AgreeOff (vs.map cid) σ σ' := by
      intro w hw; simp only [σ', hw, if_false]
    have hcopy : ∀ v ∈ vs, σ' (cid v) = T v := by
      intro v hv
      have hm : cid v ∈ vs.map cid := List.mem_map.mpr ⟨v, hv, rfl⟩
      simp only [σ', hm, if_true]
      cases hf : vs.find? (fun w => cid w == cid v) with
      | none =>
        have := List.find?_eq_none.mp hf v hv
        simp at this
      | some w =>
        have hw := List.find?_some hf
        have hwm := List.mem_of_find?_eq_some hf
        simp only [beq_iff_eq] at hw
        rw [hcid w hwm v hv hw]
    have hown : ∀ v ∈ vs, σ' (vid v) = σ (vid v) := by
      intro v hv
      have hm : vid v ∉ vs.map cid := by
        intro hm
        obtain ⟨w, hw, e⟩ := List.mem_map.mp hm
        exact hdisj v hv w hw e.symm
      simp only [σ', hm, if_false]
    have hb : Sem (antecedent (nonEdgeConstraints (complement edges vs u) cid)) FEnv.empty σ' := by
      rw [sem_body, sem_nonEdge, complement_clique edges vs u (fun v => σ' (cid v))]
      intro a ha b hb hne sa sb
      have sa' : σ' (cid a) = true := sa
      have sb' : σ' (cid b) = true := sb
      rw [hcopy a ha] at sa'; rw [hcopy b hb] at sb'
      exact hT a ha b hb hne sa' sb'
    have := (cnt σ').mp (h σ' hag hb)
    rw [filter_length_congr hcopy, filter_length_congr hown] at this
    exact this
  · intro h σ' hag hb
    rw [cnt]
    rw [sem_body, sem_nonEdge, complement_clique edges vs u (fun v => σ' (cid v))] at hb
    have hown : ∀ v ∈ vs, σ' (vid v) = σ (vid v) := by
      intro v hv
      apply hag
      intro hm
      obtain ⟨w, hw, e⟩ := List.mem_map.mp hm
      exact hdisj v hv w hw e.symm
    rw [filter_length_congr hown]
    exact h (fun v => σ' (cid v)) hb


/-! ### the evaluator on the emitted formula -/

theorem good_conj_last (fs : List Formula) (last : Formula)
    (h : ∀ f ∈ fs, GoodF f ∧ C01.NoFix f) (hl : GoodF last ∧ C01.NoFix last) :
    GoodF (conj fs last) ∧ C01.NoFix (conj fs last) := by
  unfold conj
  induction fs with
  | nil => exact hl
  | cons f fs ih =>
    have := ih (fun g hg => h g (by simp [hg]))
    simp only [List.foldr_cons, GoodF, C01.NoFix]
    exact ⟨⟨(h f (by simp)).1, this.1⟩, (h f (by simp)).2, this.2⟩

theorem good_nonEdge (comp : List (Nat × Nat)) (var : Nat → Nat) :
    ∀ f ∈ nonEdgeConstraints comp var, GoodF f ∧ C01.NoFix f := by
  intro f hf
  unfold nonEdgeConstraints at hf
  split at hf
  · simp at hf; subst hf; simp [GoodF, C01.NoFix]
  · simp only [List.mem_map] at hf
    obtain ⟨p, _, rfl⟩ := hf
    simp [GoodF, C01.NoFix]

theorem good_antecedent (copies : List Formula) (h : ∀ f ∈ copies, GoodF f ∧ C01.NoFix f) :
    GoodF (antecedent copies) ∧ C01.NoFix (antecedent copies) := by
  unfold antecedent
  cases hr : copies.reverse with
  | nil => simp [GoodF, C01.NoFix]
  | cons last restRev =>
    have : copies = restRev.reverse ++ [last] := by
      have := congrArg List.reverse hr
      simpa using this
    simp only
    apply good_conj_last
    · intro f hf; exact h f (by rw [this]; simp [hf])
    · exact h last (by rw [this]; simp)

theorem formula_good (edges : List (Nat × Nat)) (vs : List Nat) (u all : Bool) (vid cid : Nat → Nat) :
    GoodF (formula edges vs u all vid cid) ∧ C01.NoFix (formula edges vs u all vid cid) := by
  unfold formula
  cases all with
  | true =>
    simp only [if_true]
    exact good_conj_last _ _ (good_nonEdge _ _) (by simp [GoodF, C01.NoFix])
  | false =>
    simp only [Bool.false_eq_true, if_false]
    apply good_conj_last _ _ (good_nonEdge _ _)
    have ha := good_antecedent _ (good_nonEdge (complement edges vs u) cid)
    have e1 : vs.map (fun v => Formula.var (vid v)) = (vs.map vid).map Formula.var := by simp
    have e2 : vs.map (fun v => Formula.var (cid v)) = (vs.map cid).map Formula.var := by simp
    simp only [GoodF, C01.NoFix, e1, e2]
    exact ⟨⟨ha.1, goodFL_map_var _, goodFL_map_var _⟩, ha.2, noFixL_map_var _, noFixL_map_var _⟩

/-- solving the emitted formula with rsbdd: the evaluator returns, and the diagram it returns is
true exactly on the maximum cliques -/
theorem clique_solved (edges : List (Nat × Nat)) (vs : List Nat) (u : Bool) (vid cid : Nat → Nat)
    (hcid : ∀ a ∈ vs, ∀ b ∈ vs, cid a = cid b → a = b)
    (hdisj : ∀ a ∈ vs, ∀ b ∈ vs, vid a ≠ cid b) (iters : Nat) :
    let f := formula edges vs u false vid cid
    ∃ b, Formula.evalF iters (Formula.depth f) f = some b ∧ ROBDD b ∧
      ∀ σ, (eval b σ = true ↔
        IsClique edges u vs (fun v => σ (vid v)) ∧
        ∀ T : Nat → Bool, IsClique edges u vs T →
          (vs.filter T).length ≤ (vs.filter (fun v => σ (vid v))).length) := by
  intro f
  obtain ⟨b, hb, hr, hs⟩ := solved f (formula_good ..).1 (formula_good ..).2 iters
  exact ⟨b, hb, hr, fun σ => (hs σ).trans (clique_max edges vs u vid cid σ hcid hdisj)⟩

-- non-vacuity: on the path b–a–c (vertices 0,1,2 = a,b,c; copies 10,11,12) {a,b} is a maximum clique, {a} is not
example : IsClique [(0, 1), (0, 2)] true [0, 1, 2] (fun v => v == 0 || v == 1) := by
  intro a ha b hb; simp [Adj] at *; omega
example : ¬ IsClique [(0, 1), (0, 2)] true [0, 1, 2] (fun _ => true) := by
  intro h; have := h 1 (by simp) 2 (by simp) (by decide) rfl rfl; simp [Adj] at this

end Rsbdd.C16
