/-
C04 — quantifiers eliminate exactly the listed variables.

For every ordered diagram `f` (everything the library hands out is ordered, `Thm/C02`)
and every variable list `V` — empty, repeated entries, variables above / inside / below /
outside the support.
-/
import Rsbdd.Proofs.ModelRetain

namespace Rsbdd.C04
open BDD

/-- `exists(V, f)` is true under σ iff some re-assignment of the variables in `V` makes `f` true -/
theorem eval_exists (V : List Nat) {f : BDD} (hf : Ordered f) (σ : Asg) :
    eval (exists_ V f) σ = true ↔ ∃ σ', AgreeOff V σ σ' ∧ eval f σ' = true :=
  BDD.eval_exists V hf σ

/-- `all(V, f)` is true under σ iff every re-assignment of the variables in `V` makes `f` true -/
theorem eval_all (V : List Nat) {f : BDD} (hf : Ordered f) (σ : Asg) :
    eval (all V f) σ = true ↔ ∀ σ', AgreeOff V σ σ' → eval f σ' = true :=
  BDD.eval_all V hf σ

/-- the result never tests a quantified variable -/
theorem exists_indep (V : List Nat) {f : BDD} (hf : Ordered f) :
    ∀ v ∈ V, v ∉ support (exists_ V f) := by
  induction V with
  | nil => intro v hv; simp at hv
  | cons s ss ih =>
    intro v hv
    simp at hv
    by_cases hvs : v = s
    · subst hvs; exact not_mem_support_existsImpl (ordFrom_exists ss hf)
    · have hv' : v ∈ ss := by rcases hv with h | h; exact absurd h hvs; exact h
      exact fun h => ih v hv' (mem_support_existsImpl h)

theorem all_indep (V : List Nat) {f : BDD} (hf : Ordered f) :
    ∀ v ∈ V, v ∉ support (all V f) := by
  intro v hv h
  exact exists_indep V (ordFrom_not hf) v hv (mem_support_not h)

/-- semantically: the result's value does not change when a quantified variable is flipped -/
theorem exists_indep_sem (V : List Nat) {f : BDD} (hf : Ordered f) (v : Nat) (hv : v ∈ V)
    (σ : Asg) (x : Bool) : eval (exists_ V f) (upd σ v x) = eval (exists_ V f) σ := by
  have key : ∀ σ₁ σ₂ : Asg, (∀ w, w ∉ V → σ₁ w = σ₂ w) →
      eval (exists_ V f) σ₁ = true → eval (exists_ V f) σ₂ = true := by
    intro σ₁ σ₂ hag h
    obtain ⟨σ', ha, he⟩ := (eval_exists V hf σ₁).mp h
    exact (eval_exists V hf σ₂).mpr ⟨σ', fun w hw => (ha w hw).trans (hag w hw), he⟩
  have hag : ∀ w, w ∉ V → upd σ v x w = σ w := fun w hw =>
    upd_other σ x (fun e => hw (e ▸ hv))
  cases h1 : eval (exists_ V f) (upd σ v x) <;> cases h2 : eval (exists_ V f) σ <;> try rfl
  · have := key σ (upd σ v x) (fun w hw => (hag w hw).symm) h2; simp [h1] at this
  · have := key (upd σ v x) σ hag h1; simp [h2] at this

theorem agreeOff_congr {V V' : List Nat} (h : ∀ v, v ∈ V ↔ v ∈ V') (σ σ' : Asg) :
    AgreeOff V σ σ' ↔ AgreeOff V' σ σ' :=
  ⟨fun ha w hw => ha w (fun hm => hw ((h w).mp hm)), fun ha w hw => ha w (fun hm => hw ((h w).mpr hm))⟩

/-- order and repetition of the variables in `V` are irrelevant: literally the same diagram -/
theorem exists_congr {V V' : List Nat} {f : BDD} (hf : ROBDD f) (h : ∀ v, v ∈ V ↔ v ∈ V') :
    exists_ V f = exists_ V' f := by
  apply canonical_from (ordFrom_exists V hf.1) (reduced_exists V hf.2)
    (ordFrom_exists V' hf.1) (reduced_exists V' hf.2)
  intro σ
  have h1 := eval_exists V hf.1 σ
  have h2 := eval_exists V' hf.1 σ
  have : (∃ σ', AgreeOff V σ σ' ∧ eval f σ' = true) ↔ (∃ σ', AgreeOff V' σ σ' ∧ eval f σ' = true) :=
    ⟨fun ⟨s, a, e⟩ => ⟨s, (agreeOff_congr h σ s).mp a, e⟩, fun ⟨s, a, e⟩ => ⟨s, (agreeOff_congr h σ s).mpr a, e⟩⟩
  rw [Bool.eq_iff_iff]; exact h1.trans (this.trans h2.symm)

theorem all_congr {V V' : List Nat} {f : BDD} (hf : ROBDD f) (h : ∀ v, v ∈ V ↔ v ∈ V') :
    all V f = all V' f := by
  unfold all
  rw [exists_congr ⟨ordFrom_not hf.1, reduced_not hf.2⟩ h]

/-- `f` does not depend on `v` -/
def IndepOf (f : BDD) (v : Nat) : Prop := ∀ σ x, eval f (upd σ v x) = eval f σ

theorem eval_eq_of_agreeOff {f : BDD} (V : List Nat) (hind : ∀ v ∈ V, IndepOf f v) :
    ∀ σ σ' : Asg, AgreeOff V σ σ' → eval f σ' = eval f σ := by
  induction V with
  | nil => intro σ σ' h; have : σ' = σ := funext (fun w => h w (by simp)); rw [this]
  | cons s ss ih =>
    intro σ σ' h
    have h2 := agreeOff_cons_iff.mp h
    rw [ih (fun v hv => hind v (by simp [hv])) _ _ h2]
    exact hind s (by simp) σ (σ' s)

/-- quantifying over variables the function does not depend on (in particular `V = []`)
returns `f` itself -/
theorem exists_disjoint {V : List Nat} {f : BDD} (hf : ROBDD f) (hind : ∀ v ∈ V, IndepOf f v) :
    exists_ V f = f := by
  apply canonical_from (ordFrom_exists V hf.1) (reduced_exists V hf.2) hf.1 hf.2
  intro σ
  have h1 := eval_exists V hf.1 σ
  cases hx : eval (exists_ V f) σ
  · cases hy : eval f σ
    · rfl
    · exfalso
      have := h1.mpr ⟨σ, fun _ _ => rfl, hy⟩; simp [hx] at this
  · obtain ⟨σ', ha, he⟩ := h1.mp hx
    rw [← eval_eq_of_agreeOff V hind σ σ' ha, he]

theorem indepOf_of_not_mem_support {f : BDD} {v : Nat} (h : v ∉ support f) : IndepOf f v := by
  intro σ x
  induction f with
  | F => rfl
  | T => rfl
  | node t w f' iht ihf =>
    simp [support] at h
    have hw : w ≠ v := fun e => h.1 e.symm
    simp only [eval_node, upd_other σ x hw, iht h.2.1, ihf h.2.2]

/-- syntactic form: `V` disjoint from the variables `f` tests -/
theorem exists_disjoint_support {V : List Nat} {f : BDD} (hf : ROBDD f)
    (h : ∀ v ∈ V, v ∉ support f) : exists_ V f = f :=
  exists_disjoint hf (fun v hv => indepOf_of_not_mem_support (h v hv))

theorem exists_nil (f : BDD) : exists_ [] f = f := rfl

theorem not_not_of_robdd {f : BDD} (hf : ROBDD f) : not (not f) = f :=
  canonical_from (ordFrom_not (ordFrom_not hf.1)) (reduced_not (reduced_not hf.2)) hf.1 hf.2
    (fun σ => by simp [eval_not])

theorem all_disjoint {V : List Nat} {f : BDD} (hf : ROBDD f) (hind : ∀ v ∈ V, IndepOf f v) :
    all V f = f := by
  unfold all
  have hn : ROBDD (not f) := ⟨ordFrom_not hf.1, reduced_not hf.2⟩
  rw [exists_disjoint hn (fun v hv σ x => by simp [eval_not, hind v hv σ x])]
  exact not_not_of_robdd hf

/-- the definition of `all`, kept visible -/
theorem all_eq_not_exists_not (V : List Nat) (f : BDD) : all V f = not (exists_ V (not f)) := rfl

-- non-vacuity: a quantifier that really eliminates a middle variable
example : exists_ [3] (node (node T 3 F) 1 (node F 3 (node T 5 F))) = node T 1 (node T 5 F) := by
  simp [exists_, existsImpl, BDD.or, mk, mkConst]
example : Ordered (node (node T 3 F) 1 (node F 3 (node T 5 F))) := by decide

end Rsbdd.C04
