/-
C07 — model extraction returns one genuine satisfying cube.

For every ordered reduced `f` (everything the library hands out, `Thm/C02`).  The CLI
consequence (`-m -t` prints exactly one satisfying row) is `Thm/C10.rows_of_cube`.
-/
import Rsbdd.Proofs.ModelRetain

namespace Rsbdd.C07
open BDD

/-- `model(f)` is the false leaf iff `f` is unsatisfiable -/
theorem model_false_iff {f : BDD} (hf : ROBDD f) : model f = F ↔ ∀ σ, eval f σ = false :=
  ⟨unsat_of_model_eq_F hf.1, model_eq_F_of_unsat hf.1 hf.2⟩

/-- otherwise it is a single conjunction of literals -/
theorem model_cube {f : BDD} (hf : Ordered f) (h : model f ≠ F) : IsCube (model f) :=
  isCube_model hf h

/-- every assignment satisfying it satisfies `f` (no hypothesis on `f` at all) -/
theorem model_implies (f : BDD) (σ : Asg) (h : eval (model f) σ = true) : eval f σ = true :=
  eval_model_imp f σ h

/-- it mentions only variables of `f` -/
theorem model_support {f : BDD} (hf : Ordered f) : ∀ x ∈ support (model f), x ∈ support f :=
  fun _ h => mem_support_model hf h

theorem model_robdd {f : BDD} (hf : Ordered f) : ROBDD (model f) :=
  ⟨ordFrom_model hf, reduced_model hf⟩

/-- a non-`F` model really is a witness: some assignment satisfies it (and hence `f`) -/
theorem model_sat {f : BDD} (hf : Ordered f) (h : model f ≠ F) :
    ∃ σ, eval (model f) σ = true ∧ eval f σ = true := by
  apply Classical.byContradiction
  intro hn
  apply h
  apply const_false_of_robdd (ordFrom_model hf) (reduced_model hf)
  intro σ
  cases hx : eval (model f) σ
  · rfl
  · exact absurd ⟨σ, hx, eval_model_imp f σ hx⟩ hn

/-- `infer(m, v)` answers `(true, true)` exactly when `m` forces `v` to be true -/
theorem infer_spec {m : BDD} (hm : ROBDD m) (v : Nat) :
    infer m v = (true, true) ↔ ∀ σ, eval m σ = true → σ v = true := by
  rw [infer_eq_tt_iff]
  have ho : OrdFrom 0 (implies m (var v)) := ordFrom_implies hm.1 (ordFrom_var 0 v (Nat.zero_le _))
  have hr : Reduced (implies m (var v)) := reduced_implies hm.2 (reduced_var v)
  constructor
  · intro h σ hσ
    have : eval (implies m (var v)) σ = true := by rw [h]; rfl
    simpa [eval_implies, hσ] using this
  · intro h
    apply const_true_of_robdd ho hr
    intro σ
    rw [eval_implies, eval_var]
    cases hx : eval m σ
    · rfl
    · simp [h σ hx]

-- non-vacuity
example : model (node (node F 3 T) 1 (node T 5 F)) = node (node F 3 T) 1 F := by
  simp [model, BDD.and, BDD.not, BDD.var, mk, mkConst]
example : ROBDD (node (node F 3 T) 1 (node T 5 F)) := by decide
example : infer (node (node F 3 T) 1 F) 1 = (true, true) := by
  simp [infer, BDD.implies, BDD.or, BDD.not, BDD.var, mk, mkConst]

end Rsbdd.C07
