/-
C17, the text level: the bytes `sudoku_gen` writes (`Model/Gen/SudokuText.lean`, compared byte for byte with
the real output on every run as a recorded tie) are read by the tokenizer and the parser as exactly
`Sudoku.formula root (digitsOf puzzle) vid`, for every root, every puzzle text (any characters, any classes
`k` for the characters echoed in the header comment) and every version string without a double quote,
under the numbering `_c_is_d ↦ vid c d` of the names (`vid` injective):

 * `sudoku_text_tokens` — the tokenizer reads the text as the canonical token list
   (`Proofs/SudokuLex1–4.lean`: names `_c_is_d` are single name lexemes followed by `,`, `]` or a blank;
   the header comment swallows the echoed puzzle because every double quote in it was replaced);
 * `sudoku_text_parses` — that list is a sentence of the grammar with tree `Sudoku.formula …`
   (`Proofs/SudokuParse.lean`, `Proofs/SudokuFormula.lean`);
 * `sudoku_text_solved` — with `sudoku_models` (C17): solving the bytes yields a diagram that is true exactly on
   the encodings of the completed grids that keep the givens.

For another numbering (the default one) the answer is the same function of the names (`C11.meaning_invariant`).
-/
import Rsbdd.Proofs.SudokuFormula
import Rsbdd.Thm.C17
namespace Rsbdd.C17
open Parser C11 Gen.Sudoku Grammar Formula BDD
open Gen.Queens (natStr comment)

/-- the ordering that numbers the name `_c_is_d` as `vid c d` (every name the output mentions) -/
def nameOrdering (vid : Nat → Nat → Nat) (root : Nat) (puzzle : List Char) : List (String × Nat) :=
  ((allLines root puzzle).flatMap SLine.cells).map (fun p => (varStr p.1 p.2, vid p.1 p.2))

theorem nameOrdering_ok (vid : Nat → Nat → Nat) (hvid : ∀ c d c' d', vid c d = vid c' d' → c = c' ∧ d = d')
    (root : Nat) (puzzle : List Char) : OrderingOk (nameOrdering vid root puzzle) := by
  rintro ⟨a, i⟩ hp ⟨b, j⟩ hq
  simp only [nameOrdering, List.mem_map] at hp hq
  obtain ⟨p, _, hp'⟩ := hp
  obtain ⟨q, _, hq'⟩ := hq
  cases hp'; cases hq'
  simp only
  constructor
  · intro h
    obtain ⟨e1, e2⟩ := varStr_inj h
    rw [e1, e2]
  · intro h
    obtain ⟨e1, e2⟩ := hvid _ _ _ _ h
    rw [e1, e2]

theorem ident_mem_slex {name : String} {l : SLine} (h : Lexeme.ident name ∈ l.lex) :
    ∃ p ∈ l.cells, name = varStr p.1 p.2 := by
  have hitems : ∀ cells : List (Nat × Nat), Lexeme.ident name ∈ itemsLex cells → ∃ p ∈ cells, name = varStr p.1 p.2 := by
    intro cells
    induction cells with
    | nil => intro h; simp [itemsLex] at h
    | cons p r ih =>
      intro h
      cases r with
      | nil =>
        simp only [itemsLex, List.mem_singleton, Lexeme.ident.injEq] at h
        exact ⟨p, by simp, h⟩
      | cons q r' =>
        simp only [itemsLex, List.mem_cons, Lexeme.ident.injEq, reduceCtorEq, false_or] at h
        rcases h with h | h
        · exact ⟨p, by simp, h⟩
        · obtain ⟨x, hx, hn⟩ := ih (by simpa [itemsLex] using h)
          exact ⟨x, by simp [hx], hn⟩
  cases l with
  | hint c d =>
    unfold SLine.lex at h
    rcases List.mem_cons.mp h with e | h
    · cases e; exact ⟨(c, d), by simp [SLine.cells], rfl⟩
    · rcases List.mem_cons.mp h with e | h
      · cases e
      · cases h
  | list cells =>
    unfold SLine.lex at h
    rcases List.mem_cons.mp h with e | h
    · cases e
    · rcases List.mem_append.mp h with h | h
      · exact hitems cells h
      · simp only [List.mem_cons, List.not_mem_nil, or_false] at h
        rcases h with e | e | e | e <;> cases e

theorem num_mem_slex {ds : List Ch} {l : SLine} (h : Lexeme.num ds ∈ l.lex) : ds = [mkCh '1'] := by
  have hitems : ∀ cells : List (Nat × Nat), Lexeme.num ds ∉ itemsLex cells := by
    intro cells
    induction cells with
    | nil => simp [itemsLex]
    | cons p r ih =>
      cases r with
      | nil => simp [itemsLex]
      | cons q r' => simp only [itemsLex, List.mem_cons, reduceCtorEq, false_or]; simpa [itemsLex] using ih
  cases l with
  | hint c d =>
    unfold SLine.lex at h
    rcases List.mem_cons.mp h with e | h
    · cases e
    · rcases List.mem_cons.mp h with e | h
      · cases e
      · cases h
  | list cells =>
    unfold SLine.lex at h
    rcases List.mem_cons.mp h with e | h
    · cases e
    · rcases List.mem_append.mp h with h | h
      · exact absurd h (hitems cells)
      · simp only [List.mem_cons, List.not_mem_nil, or_false] at h
        rcases h with e | e | e | e
        · cases e
        · cases e
        · cases e; rfl
        · cases e

/-- MAIN, lexical half -/
theorem sudoku_text_tokens (k : Char → Cls) (version : String) (hv : '"' ∉ version.toList) (root : Nat)
    (puzzle : List Char) (vid : Nat → Nat → Nat) (hvid : ∀ c d c' d', vid c d = vid c' d' → c = c' ∧ d = d') :
    tokenize (textCh k version root puzzle) (nameOrdering vid root puzzle) =
      some (((allLines root puzzle).flatMap (SLine.toks vid) ++ [Token.true_]) ++ [Token.eof]) := by
  have hlook : ∀ l ∈ allLines root puzzle, ∀ p ∈ l.cells,
      (VarTable.preload (nameOrdering vid root puzzle)).lookup (varStr p.1 p.2) = some (vid p.1 p.2) := by
    intro l hl p hp
    apply preload_lookup (nameOrdering_ok vid hvid root puzzle)
    simp only [nameOrdering, List.mem_map, List.mem_flatMap]
    exact ⟨p, ⟨l, hl, hp⟩, rfl⟩
  unfold tokenize
  have hscan : scan ((textCh k version root puzzle).length + 1) (textCh k version root puzzle) =
      lexAll (textCh k version root puzzle) := by simp only [lexAll]
  rw [hscan, lex_sudoku k version hv root puzzle]
  generalize VarTable.preload (nameOrdering vid root puzzle) = vt at hlook ⊢
  generalize allLines root puzzle = ls at hlook ⊢
  have e1 : (ls.flatMap SLine.lex).map (tokOf vt) = ls.flatMap (SLine.toks vid) := by
    have aux : ∀ l : List SLine, (∀ x ∈ l, x ∈ ls) → (l.flatMap SLine.lex).map (tokOf vt) = l.flatMap (SLine.toks vid) := by
      intro l
      induction l with
      | nil => intro _; rfl
      | cons x l ih =>
        intro hl
        simp only [List.flatMap_cons, List.map_append]
        rw [tok_sline vt vid x (hlook x (hl x (by simp))), ih (fun y hy => hl y (by simp [hy]))]
    exact aux ls (fun _ h => h)
  have e2 : tokOf vt (Lexeme.ident "true") = Token.true_ := by simp [tokOf, keywordTable]
  rw [toTokens_fixed]
  · simp only [Option.map_some, List.map_append, List.map_cons, List.map_nil, e1, e2]
  · intro name hm hnk
    rcases List.mem_append.mp hm with hm | hm
    · obtain ⟨l, hl, hlm⟩ := List.mem_flatMap.mp hm
      obtain ⟨p, hp, rfl⟩ := ident_mem_slex hlm
      rw [hlook l hl p hp]; rfl
    · simp only [List.mem_singleton, Lexeme.ident.injEq] at hm
      subst hm
      exact absurd hnk (by unfold NotKeyword; decide)
  · intro ds hm
    rcases List.mem_append.mp hm with hm | hm
    · obtain ⟨l, _, hlm⟩ := List.mem_flatMap.mp hm
      rw [num_mem_slex hlm]; decide
    · simp at hm

/-- MAIN: read under that numbering, the generator's output parses to exactly `Sudoku.formula` -/
theorem sudoku_text_parses (k : Char → Cls) (version : String) (hv : '"' ∉ version.toList) (root : Nat)
    (puzzle : List Char) (vid : Nat → Nat → Nat) (hvid : ∀ c d c' d', vid c d = vid c' d' → c = c' ∧ d = d') :
    ∃ ts, tokenize (textCh k version root puzzle) (nameOrdering vid root puzzle) = some ts ∧
      parseFormula ts = some (formula root (digitsOf puzzle) vid) := by
  refine ⟨_, sudoku_text_tokens k version hv root puzzle vid hvid, ?_⟩
  apply C08.parse_complete
  rw [formula_eq]
  exact ⟨_, rfl, sub_slines vid (allLines root puzzle)⟩

/-- hence: parsing and solving the bytes yields a diagram that is true exactly on the encodings of the
completed grids that keep the givens (`hscope`: the givens are digits between 1 and r²) -/
theorem sudoku_text_solved (k : Char → Cls) (version : String) (hv : '"' ∉ version.toList) (root : Nat)
    (puzzle : List Char) (vid : Nat → Nat → Nat) (hvid : ∀ c d c' d', vid c d = vid c' d' → c = c' ∧ d = d')
    (hscope : ∀ c d, c < root * root * (root * root) → (digitsOf puzzle)[c]? = some (some d) → 1 ≤ d ∧ d ≤ root * root)
    (iters : Nat) :
    ∃ ts f b, tokenize (textCh k version root puzzle) (nameOrdering vid root puzzle) = some ts ∧
      parseFormula ts = some f ∧ evalF iters (depth f) f = some b ∧ ROBDD b ∧
      ∀ σ, (eval b σ = true ↔ ∃ g, ValidGrid root (digitsOf puzzle) g ∧ Encodes root vid σ g) := by
  obtain ⟨ts, ht, hp⟩ := sudoku_text_parses k version hv root puzzle vid hvid
  obtain ⟨b, hb, hr, hs⟩ := sudoku_solved root (digitsOf puzzle) vid hscope iters
  exact ⟨ts, _, b, ht, hp, hb, hr, hs⟩

-- non-vacuity: the characters of `textCh` are the bytes of the text model, and a pairing function is injective
example : (textCh asciiCls "0.1.0" 1 ['5']).map (·.c) = text "0.1.0" 1 ['5'] := textCh_chars _ _ _ _

end Rsbdd.C17
