/-
C19 — `BDDSet` behaves as a mathematical set of b-bit integers under every history.

`Model/SetModel.lean` mirrors `src/set.rs` (after the three `fix:` commits: operands cloned
before `replace`, `complement` = difference, `contains` does not assign).  The reference is
the plain set semantics on characteristic functions.

 * `item_mem`: the cube built by `insert` contains exactly one b-bit integer;
 * `step_refines`: after every operation on every index pair — including `i = j` — each
   set's membership (read through the diagram) agrees with the reference set that
   underwent the same operation, and `contains` answers the reference's membership;
 * `run_refines`: hence for every history;
 * `contains_pure`: a query leaves every set unchanged;
 * `alias_ok`: an operation with both operands the same object is never an error.

Not modelled: `RefCell` dynamic borrow state (the self-aliasing panic was a borrow
conflict); it is exercised by the exhaustive depth-3/4 enumeration of the correspondence run.
-/
import Rsbdd.Model.SetModel
import Rsbdd.Proofs.Quant

namespace Rsbdd.C19
open BDD SetModel

/-- the assignment that presents the integer `x` to a set diagram -/
def asgOfElem (x : Nat) : Asg := fun c => categorize x c

/-- membership of `x`, read through the diagram -/
def mem (s : BDD) (x : Nat) : Bool := eval s (asgOfElem x)

theorem eval_item_aux (e : Nat) (σ : Asg) : ∀ (n : Nat) (acc : BDD),
    eval ((List.range n).foldl (fun acc i => BDD.and acc (if categorize e i then BDD.var i else BDD.not (BDD.var i))) acc) σ =
      (eval acc σ && (List.range n).all (fun i => σ i == categorize e i)) := by
  intro n
  induction n with
  | zero => intro acc; simp
  | succ n ih =>
    intro acc
    rw [List.range_succ, List.foldl_append, List.all_append]
    simp only [List.foldl_cons, List.foldl_nil, List.all_cons, List.all_nil, Bool.and_true]
    rw [BDD.eval_and, ih]
    cases hc : categorize e n
    · simp [BDD.eval_not, Bool.and_assoc]
    · simp [Bool.and_assoc]

/-- the cube of `e` is true exactly on (the b low bits of) `e` -/
theorem item_mem {bits e x : Nat} (he : e < 2 ^ bits) (hx : x < 2 ^ bits) :
    mem (item bits e) x = true ↔ x = e := by
  unfold mem item
  rw [eval_item_aux]
  simp only [eval_mkConst, Bool.true_and, List.all_eq_true, List.mem_range, beq_iff_eq, asgOfElem, categorize]
  constructor
  · intro h
    apply Nat.eq_of_testBit_eq
    intro i
    by_cases hi : i < bits
    · have := h i hi; simpa using this
    · have h1 : x.testBit i = false := Nat.testBit_lt_two_pow (Nat.lt_of_lt_of_le hx (Nat.pow_le_pow_right (by omega) (by omega)))
      have h2 : e.testBit i = false := Nat.testBit_lt_two_pow (Nat.lt_of_lt_of_le he (Nat.pow_le_pow_right (by omega) (by omega)))
      rw [h1, h2]
  · intro h i _; rw [h]

/-- a well-formed set diagram: ordered, reduced, and testing only the bit variables -/
def WFSet (bits : Nat) (s : BDD) : Prop := ROBDD s ∧ ∀ v ∈ support s, v < bits

theorem wf_and {bits : Nat} {a b : BDD} (ha : WFSet bits a) (hb : WFSet bits b) : WFSet bits (BDD.and a b) :=
  ⟨⟨ordFrom_and ha.1.1 hb.1.1, reduced_and ha.1.2 hb.1.2⟩,
   fun v hv => (mem_support_and hv).elim (ha.2 v) (hb.2 v)⟩
theorem wf_or {bits : Nat} {a b : BDD} (ha : WFSet bits a) (hb : WFSet bits b) : WFSet bits (BDD.or a b) :=
  ⟨⟨ordFrom_or ha.1.1 hb.1.1, reduced_or ha.1.2 hb.1.2⟩,
   fun v hv => (mem_support_or hv).elim (ha.2 v) (hb.2 v)⟩
theorem wf_not {bits : Nat} {a : BDD} (ha : WFSet bits a) : WFSet bits (BDD.not a) :=
  ⟨⟨ordFrom_not ha.1.1, reduced_not ha.1.2⟩, fun v hv => ha.2 v (mem_support_not hv)⟩
theorem wf_const (bits : Nat) (b : Bool) : WFSet bits (BDD.mkConst b) :=
  ⟨⟨ordFrom_mkConst 0 b, reduced_mkConst b⟩, fun v hv => by simp [support_mkConst] at hv⟩
theorem wf_var {bits i : Nat} (hi : i < bits) : WFSet bits (BDD.var i) :=
  ⟨⟨ordFrom_var 0 i (Nat.zero_le _), reduced_var i⟩, fun v hv => by
    simp [var_eq_node', support] at hv; omega⟩
where
  var_eq_node' : BDD.var i = node T i F := by simp [BDD.var, mk, mkConst]

theorem wf_item (bits e : Nat) : WFSet bits (item bits e) := by
  unfold item
  have : ∀ (n : Nat) (acc : BDD), n ≤ bits → WFSet bits acc →
      WFSet bits ((List.range n).foldl (fun acc i => BDD.and acc (if categorize e i then BDD.var i else BDD.not (BDD.var i))) acc) := by
    intro n
    induction n with
    | zero => intro acc _ h; simpa using h
    | succ n ih =>
      intro acc hn h
      rw [List.range_succ, List.foldl_append]
      simp only [List.foldl_cons, List.foldl_nil]
      apply wf_and (ih acc (by omega) h)
      split
      · exact wf_var (by omega)
      · exact wf_not (wf_var (by omega))
  exact this bits _ (Nat.le_refl _) (wf_const bits true)

/-- a well-formed set diagram is determined, on any assignment, by the bit variables -/
theorem eval_eq_of_agree_below {bits : Nat} {s : BDD} (hs : ∀ v ∈ support s, v < bits) {σ σ' : Asg}
    (h : ∀ i, i < bits → σ i = σ' i) : eval s σ = eval s σ' := by
  induction s with
  | F => rfl
  | T => rfl
  | node t v f iht ihf =>
    have hv : v < bits := hs v (by simp [support])
    simp only [eval_node, h v hv]
    rw [iht (fun x hx => hs x (by simp [support, hx])), ihf (fun x hx => hs x (by simp [support, hx]))]

/-- `self ∩ {e} == {e}` decides membership of `e` -/
theorem contains_iff {bits e : Nat} {s : BDD} (hs : WFSet bits s) (he : e < 2 ^ bits) :
    BDD.and s (item bits e) = item bits e ↔ mem s e = true := by
  have hi := wf_item bits e
  constructor
  · intro h
    have h1 : mem (item bits e) e = true := (item_mem he he).mpr rfl
    have : eval (BDD.and s (item bits e)) (asgOfElem e) = true := by rw [h]; exact h1
    rw [BDD.eval_and] at this
    simp only [mem]
    simp only [Bool.and_eq_true] at this
    exact this.1
  · intro h
    apply canonical_from (wf_and hs hi).1.1 (wf_and hs hi).1.2 hi.1.1 hi.1.2
    intro σ
    rw [BDD.eval_and]
    cases hit : eval (item bits e) σ
    · simp
    · -- σ presents `e` on the bit variables, so `s` has the value it has on `e`
      have hagree : ∀ i, i < bits → σ i = asgOfElem e i := by
        have := hit
        unfold item at this
        rw [eval_item_aux] at this
        simp only [eval_mkConst, Bool.true_and, List.all_eq_true, List.mem_range, beq_iff_eq] at this
        intro i hi'; exact this i hi'
      have : eval s σ = eval s (asgOfElem e) := eval_eq_of_agree_below hs.2 hagree
      rw [this]
      simp only [mem] at h
      simp [h]

/-- reference sets: characteristic functions on b-bit integers -/
abbrev RefSet := Nat → Bool

def refStep (r : List RefSet) : SetOp → List RefSet × Option Bool
  | .insert i e => (r.set i (fun x => (r.getD i (fun _ => false)) x || decide (x = e)), none)
  | .union i j => (r.set i (fun x => (r.getD i (fun _ => false)) x || (r.getD j (fun _ => false)) x), none)
  | .intersect i j => (r.set i (fun x => (r.getD i (fun _ => false)) x && (r.getD j (fun _ => false)) x), none)
  | .complement i j => (r.set i (fun x => (r.getD i (fun _ => false)) x && !((r.getD j (fun _ => false)) x)), none)
  | .empty i => (r.set i (fun _ => false), none)
  | .universe i => (r.set i (fun _ => true), none)
  | .contains i e => (r, some ((r.getD i (fun _ => false)) e))

/-- the model's sets and the reference sets have the same members below `2^bits` -/
def Agree (st : State) (r : List RefSet) : Prop :=
  st.sets.length = r.length ∧
  ∀ i (s : BDD), st.sets[i]? = some s →
    WFSet st.bits s ∧ ∀ x, x < 2 ^ st.bits → mem s x = (r.getD i (fun _ => false)) x

theorem agree_set {st : State} {r : List RefSet} (h : Agree st r) {i : Nat} {s' : BDD} {f : RefSet}
    (hw : WFSet st.bits s') (hs : ∀ x, x < 2 ^ st.bits → mem s' x = f x) :
    Agree { st with sets := st.sets.set i s' } (r.set i f) := by
  refine ⟨by simp [h.1], ?_⟩
  intro k s hk
  simp only at hk
  by_cases hki : i = k
  · subst hki
    rw [List.getElem?_set] at hk
    by_cases hlt : i < st.sets.length
    · simp [hlt] at hk; subst hk
      have hlt' : i < r.length := by rw [← h.1]; exact hlt
      refine ⟨hw, fun x hx => ?_⟩
      rw [hs x hx]
      simp [List.getD_eq_getElem?_getD, List.getElem?_set, hlt']
    · simp [hlt] at hk
  · rw [List.getElem?_set] at hk
    simp [hki] at hk
    obtain ⟨w, hm⟩ := h.2 k s hk
    refine ⟨w, fun x hx => ?_⟩
    rw [hm x hx]
    simp [List.getD_eq_getElem?_getD, List.getElem?_set, hki]

/-- every operation keeps the sets in agreement with the reference and answers like it -/
theorem step_refines {st st' : State} {r : List RefSet} {op : SetOp} {ans : Option Bool}
    (h : Agree st r) (hop : ∀ i e, (op = .insert i e ∨ op = .contains i e) → e < 2 ^ st.bits)
    (hs : step st op = some (st', ans)) :
    Agree st' (refStep r op).1 ∧ st'.bits = st.bits ∧ ans = (refStep r op).2 := by
  cases op with
  | insert i e =>
    simp only [step, Option.map_eq_some_iff] at hs
    obtain ⟨s, hsi, hpair⟩ := hs
    cases hpair
    have he := hop i e (Or.inl rfl)
    obtain ⟨hw, hm⟩ := h.2 i s hsi
    refine ⟨agree_set h (wf_or hw (wf_item _ _)) (fun x hx => ?_), rfl, rfl⟩
    simp only [mem, BDD.eval_or]
    have h1 := hm x hx
    simp only [mem] at h1
    rw [h1]
    have h2 := item_mem (bits := st.bits) he hx
    simp only [mem] at h2
    cases hit : eval (item st.bits e) (asgOfElem x)
    · have : ¬ x = e := fun e' => by rw [h2.mpr e'] at hit; simp at hit
      simp [this]
    · simp [h2.mp hit]
  | union i j =>
    simp only [step, Option.bind_eq_bind] at hs
    cases hi : st.sets[i]? with
    | none => simp [hi] at hs
    | some a =>
      cases hj : st.sets[j]? with
      | none => simp [hi, hj] at hs
      | some b =>
        simp [hi, hj] at hs
        obtain ⟨rfl, rfl⟩ := hs
        obtain ⟨wa, ma⟩ := h.2 i a hi; obtain ⟨wb, mb⟩ := h.2 j b hj
        refine ⟨agree_set h (wf_or wa wb) (fun x hx => ?_), rfl, rfl⟩
        simp only [mem, BDD.eval_or]
        have h1 := ma x hx; have h2 := mb x hx
        simp only [mem] at h1 h2
        rw [h1, h2]
  | intersect i j =>
    simp only [step, Option.bind_eq_bind] at hs
    cases hi : st.sets[i]? with
    | none => simp [hi] at hs
    | some a =>
      cases hj : st.sets[j]? with
      | none => simp [hi, hj] at hs
      | some b =>
        simp [hi, hj] at hs
        obtain ⟨rfl, rfl⟩ := hs
        obtain ⟨wa, ma⟩ := h.2 i a hi; obtain ⟨wb, mb⟩ := h.2 j b hj
        refine ⟨agree_set h (wf_and wa wb) (fun x hx => ?_), rfl, rfl⟩
        simp only [mem, BDD.eval_and]
        have h1 := ma x hx; have h2 := mb x hx
        simp only [mem] at h1 h2
        rw [h1, h2]
  | complement i j =>
    simp only [step, Option.bind_eq_bind] at hs
    cases hi : st.sets[i]? with
    | none => simp [hi] at hs
    | some a =>
      cases hj : st.sets[j]? with
      | none => simp [hi, hj] at hs
      | some b =>
        simp [hi, hj] at hs
        obtain ⟨rfl, rfl⟩ := hs
        obtain ⟨wa, ma⟩ := h.2 i a hi; obtain ⟨wb, mb⟩ := h.2 j b hj
        refine ⟨agree_set h (wf_and wa (wf_not wb)) (fun x hx => ?_), rfl, rfl⟩
        simp only [mem, BDD.eval_and, BDD.eval_not]
        have h1 := ma x hx; have h2 := mb x hx
        simp only [mem] at h1 h2
        rw [h1, h2]
  | empty i =>
    simp only [step, Option.map_eq_some_iff] at hs
    obtain ⟨s, _, hpair⟩ := hs
    cases hpair
    exact ⟨agree_set h (wf_const _ false) (fun x _ => by simp [mem]), rfl, rfl⟩
  | «universe» i =>
    simp only [step, Option.map_eq_some_iff] at hs
    obtain ⟨s, _, hpair⟩ := hs
    cases hpair
    exact ⟨agree_set h (wf_const _ true) (fun x _ => by simp [mem]), rfl, rfl⟩
  | contains i e =>
    simp only [step, Option.map_eq_some_iff] at hs
    obtain ⟨s, hsi, hpair⟩ := hs
    cases hpair
    have he := hop i e (Or.inr rfl)
    obtain ⟨hw, hm⟩ := h.2 i s hsi
    refine ⟨h, rfl, ?_⟩
    simp only [refStep]
    congr 1
    rw [← hm e he]
    have := contains_iff hw he
    cases hx : mem s e
    · simp [hx] at this; simp [this]
    · simp [hx] at this; simp [this]

/-- a query does not modify any set -/
theorem contains_pure {st st' : State} {i e : Nat} {ans : Option Bool}
    (hs : step st (.contains i e) = some (st', ans)) : st' = st := by
  simp only [step, Option.map_eq_some_iff] at hs
  obtain ⟨s, _, hpair⟩ := hs
  cases hpair; rfl

/-- passing the same object as both operands is never an error -/
theorem alias_ok (st : State) (i : Nat) (hi : i < st.sets.length) :
    (step st (.union i i)).isSome ∧ (step st (.intersect i i)).isSome ∧ (step st (.complement i i)).isSome := by
  have : ∃ s, st.sets[i]? = some s := ⟨st.sets[i], by simp [hi]⟩
  obtain ⟨s, hs⟩ := this
  simp [step, hs]

def run : State → List SetOp → Option (State × List (Option Bool))
  | st, [] => some (st, [])
  | st, op :: ops =>
    match step st op with
    | none => none
    | some (st', a) => (run st' ops).map (fun r => (r.1, a :: r.2))

def refRun : List RefSet → List SetOp → List RefSet × List (Option Bool)
  | r, [] => (r, [])
  | r, op :: ops => let r' := refStep r op; let rest := refRun r'.1 ops; (rest.1, r'.2 :: rest.2)

/-- for every history: the final sets agree with the reference sets and every query was
answered like the reference -/
theorem run_refines : ∀ (ops : List SetOp) (st : State) (r : List RefSet), Agree st r →
    (∀ op ∈ ops, ∀ i e, (op = .insert i e ∨ op = .contains i e) → e < 2 ^ st.bits) →
    ∀ st' answers, run st ops = some (st', answers) →
      Agree st' (refRun r ops).1 ∧ answers = (refRun r ops).2 := by
  intro ops
  induction ops with
  | nil => intro st r h _ st' answers hr; simp [run] at hr; obtain ⟨rfl, rfl⟩ := hr; exact ⟨h, rfl⟩
  | cons op ops ih =>
    intro st r h hops st' answers hr
    simp only [run] at hr
    cases hst : step st op with
    | none => simp [hst] at hr
    | some p =>
      obtain ⟨st1, a⟩ := p
      simp only [hst, Option.map_eq_some_iff] at hr
      obtain ⟨⟨st2, as⟩, hrun, hpair⟩ := hr
      cases hpair
      obtain ⟨h1, hb, ha⟩ := step_refines h (fun i e => hops op (by simp) i e) hst
      have := ih st1 (refStep r op).1 h1 (fun o ho i e => by rw [hb]; exact hops o (by simp [ho]) i e) st2 as hrun
      exact ⟨this.1, by simp [refRun, ha, this.2]⟩

/-- the initial state: every set empty -/
theorem agree_init (bits n : Nat) :
    Agree { bits, sets := List.replicate n (BDD.mkConst false) } (List.replicate n (fun _ => false)) := by
  refine ⟨by simp, ?_⟩
  intro i s hs
  rw [List.getElem?_replicate] at hs
  split at hs
  · rename_i hlt
    cases hs
    refine ⟨wf_const _ false, fun x _ => ?_⟩
    have : (List.replicate n (fun (_ : Nat) => false)).getD i (fun _ => false) = fun _ => false := by
      simp [List.getD_eq_getElem?_getD, List.getElem?_replicate, hlt]
    rw [this]; simp [mem]
  · simp at hs

-- non-vacuity: {1,2}.contains(1) then .contains(2), and s.union(s)
example : (run { bits := 2, sets := [BDD.mkConst false] }
    [.insert 0 1, .insert 0 2, .contains 0 1, .contains 0 2, .union 0 0, .contains 0 3]).map (·.2) =
    some [none, none, some true, some true, none, some false] := by decide +kernel

end Rsbdd.C19
