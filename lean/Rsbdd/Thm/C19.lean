/-
C19 — `BDDSet` behaves as a mathematical set of b-bit integers under every history.

`Model/SetModel.lean` mirrors `src/set.rs` (after the three `fix:` commits: operands cloned
before `replace`, `complement` = difference, `contains` does not assign).  The reference is
the plain set semantics on characteristic functions.

 * `item_mem`: the cube built by `insert` contains exactly one b-bit integer;
 * `step_refines`: after every operation on every index pair — including `i = j` — each
   set's membership (read through the diagram) agrees with the reference set that
   underwent the same operation, and `contains` answers the reference's membership;
 * `run_refines`: hence for every history;
 * `contains_pure`: a query leaves every set unchanged;
 * `alias_ok`: an operation with both operands the same object is never an error.

Not modelled: `RefCell` dynamic borrow state (the self-aliasing panic was a borrow
conflict); it is exercised by the exhaustive depth-3/4 enumeration of the correspondence run.
-/
import Rsbdd.Model.SetModel
import Rsbdd.Proofs.Quant

namespace Rsbdd.C19
open BDD SetModel

/-- the assignment that presents the integer `x` to a set diagram -/
def asgOfElem (x : Nat) : Asg := fun c => categorize x c

/-- membership of `x`, read through the diagram -/
def mem (s : BDD) (x : Nat) : Bool := eval s (asgOfElem x)

theorem eval_item_aux (e : Nat) (σ : Asg) : ∀ (n : Nat) (acc : BDD),
    eval ((List.range n).foldl (fun acc i => BDD.and acc (if categorize e i then BDD.var i else BDD.not (BDD.var i))) acc) σ =
      (eval acc σ && (List.range n).all (fun i => σ i == categorize e i)) := by
  intro n
  induction n with
  | zero => intro acc; simp
  | succ n ih =>
    intro acc
    rw [List.range_succ, List.foldl_append, List.all_append]
    simp only [List.foldl_cons, List.foldl_nil, List.all_cons, List.all_nil, Bool.and_true]
    rw [BDD.eval_and, ih]
    cases hc : categorize e n
    · simp [BDD.eval_not, Bool.and_assoc]
    · simp [Bool.and_assoc]

/-- the cube of `e` is true exactly on (the b low bits of) `e` -/
theorem item_mem {bits e x : Nat} (he : e < 2 ^ bits) (hx : x < 2 ^ bits) :
    mem (item bits e) x = true ↔ x = e := by
  unfold mem item
  rw [eval_item_aux]
  simp only [eval_mkConst, Bool.true_and, List.all_eq_true, List.mem_range, beq_iff_eq, asgOfElem, categorize]
  constructor
  · intro h
    apply Nat.eq_of_testBit_eq
    intro i
    by_cases hi : i < bits
    · have := h i hi; simpa using this
    · have h1 : x.testBit i = false := Nat.testBit_lt_two_pow (Nat.lt_of_lt_of_le hx (Nat.pow_le_pow_right (by omega) (by omega)))
      have h2 : e.testBit i = false := Nat.testBit_lt_two_pow (Nat.lt_of_lt_of_le he (Nat.pow_le_pow_right (by omega) (by omega)))
      rw [h1, h2]
  · intro h i _; rw [h]

/-- for any machine integer: the cube of `e` holds exactly `e mod 2^bits` (only the low bits are read) -/
theorem item_mem_mod {bits e x : Nat} (hx : x < 2 ^ bits) :
    mem (item bits e) x = true ↔ x = e % 2 ^ bits := by
  unfold mem item
  rw [eval_item_aux]
  simp only [eval_mkConst, Bool.true_and, List.all_eq_true, List.mem_range, beq_iff_eq, asgOfElem, categorize]
  constructor
  · intro h
    apply Nat.eq_of_testBit_eq
    intro i
    rw [Nat.testBit_mod_two_pow]
    by_cases hi : i < bits
    · have := h i hi; simp [hi]; simpa using this
    · have h1 : x.testBit i = false := Nat.testBit_lt_two_pow (Nat.lt_of_lt_of_le hx (Nat.pow_le_pow_right (by omega) (by omega)))
      simp [h1, hi]
  · intro h i hi; rw [h, Nat.testBit_mod_two_pow]; simp [hi]

/-- a well-formed set diagram: ordered, reduced, and testing only the bit variables -/
def WFSet (bits : Nat) (s : BDD) : Prop := ROBDD s ∧ ∀ v ∈ support s, v < bits

theorem wf_and {bits : Nat} {a b : BDD} (ha : WFSet bits a) (hb : WFSet bits b) : WFSet bits (BDD.and a b) :=
  ⟨⟨ordFrom_and ha.1.1 hb.1.1, reduced_and ha.1.2 hb.1.2⟩,
   fun v hv => (mem_support_and hv).elim (ha.2 v) (hb.2 v)⟩
theorem wf_or {bits : Nat} {a b : BDD} (ha : WFSet bits a) (hb : WFSet bits b) : WFSet bits (BDD.or a b) :=
  ⟨⟨ordFrom_or ha.1.1 hb.1.1, reduced_or ha.1.2 hb.1.2⟩,
   fun v hv => (mem_support_or hv).elim (ha.2 v) (hb.2 v)⟩
theorem wf_not {bits : Nat} {a : BDD} (ha : WFSet bits a) : WFSet bits (BDD.not a) :=
  ⟨⟨ordFrom_not ha.1.1, reduced_not ha.1.2⟩, fun v hv => ha.2 v (mem_support_not hv)⟩
theorem wf_const (bits : Nat) (b : Bool) : WFSet bits (BDD.mkConst b) :=
  ⟨⟨ordFrom_mkConst 0 b, reduced_mkConst b⟩, fun v hv => by simp [support_mkConst] at hv⟩
theorem wf_var {bits i : Nat} (hi : i < bits) : WFSet bits (BDD.var i) :=
  ⟨⟨ordFrom_var 0 i (Nat.zero_le _), reduced_var i⟩, fun v hv => by
    simp [var_eq_node', support] at hv; omega⟩
where
  var_eq_node' : BDD.var i = node T i F := by simp [BDD.var, mk, mkConst]

theorem wf_item (bits e : Nat) : WFSet bits (item bits e) := by
  unfold item
  have : ∀ (n : Nat) (acc : BDD), n ≤ bits → WFSet bits acc →
      WFSet bits ((List.range n).foldl (fun acc i => BDD.and acc (if categorize e i then BDD.var i else BDD.not (BDD.var i))) acc) := by
    intro n
    induction n with
    | zero => intro acc _ h; simpa using h
    | succ n ih =>
      intro acc hn h
      rw [List.range_succ, List.foldl_append]
      simp only [List.foldl_cons, List.foldl_nil]
      apply wf_and (ih acc (by omega) h)
      split
      · exact wf_var (by omega)
      · exact wf_not (wf_var (by omega))
  exact this bits _ (Nat.le_refl _) (wf_const bits true)

/-- a well-formed set diagram is determined, on any assignment, by the bit variables -/
theorem eval_eq_of_agree_below {bits : Nat} {s : BDD} (hs : ∀ v ∈ support s, v < bits) {σ σ' : Asg}
    (h : ∀ i, i < bits → σ i = σ' i) : eval s σ = eval s σ' := by
  induction s with
  | F => rfl
  | T => rfl
  | node t v f iht ihf =>
    have hv : v < bits := hs v (by simp [support])
    simp only [eval_node, h v hv]
    rw [iht (fun x hx => hs x (by simp [support, hx])), ihf (fun x hx => hs x (by simp [support, hx]))]

/-- `self ∩ {e} == {e}` decides membership of `e` -/
theorem contains_iff {bits e : Nat} {s : BDD} (hs : WFSet bits s) (he : e < 2 ^ bits) :
    BDD.and s (item bits e) = item bits e ↔ mem s e = true := by
  have hi := wf_item bits e
  constructor
  · intro h
    have h1 : mem (item bits e) e = true := (item_mem he he).mpr rfl
    have : eval (BDD.and s (item bits e)) (asgOfElem e) = true := by rw [h]; exact h1
    rw [BDD.eval_and] at this
    simp only [mem]
    simp only [Bool.and_eq_true] at this
    exact this.1
  · intro h
    apply canonical_from (wf_and hs hi).1.1 (wf_and hs hi).1.2 hi.1.1 hi.1.2
    intro σ
    rw [BDD.eval_and]
    cases hit : eval (item bits e) σ
    · simp
    · -- σ presents `e` on the bit variables, so `s` has the value it has on `e`
      have hagree : ∀ i, i < bits → σ i = asgOfElem e i := by
        have := hit
        unfold item at this
        rw [eval_item_aux] at this
        simp only [eval_mkConst, Bool.true_and, List.all_eq_true, List.mem_range, beq_iff_eq] at this
        intro i hi'; exact this i hi'
      have : eval s σ = eval s (asgOfElem e) := eval_eq_of_agree_below hs.2 hagree
      rw [this]
      simp only [mem] at h
      simp [h]

/-- the query for any machine integer asks for its low `bits` bits -/
theorem contains_iff_mod {bits e : Nat} {s : BDD} (hs : WFSet bits s) :
    BDD.and s (item bits e) = item bits e ↔ mem s (e % 2 ^ bits) = true := by
  have hi := wf_item bits e
  have hlt : e % 2 ^ bits < 2 ^ bits := Nat.mod_lt _ (Nat.two_pow_pos _)
  constructor
  · intro h
    have h1 : mem (item bits e) (e % 2 ^ bits) = true := (item_mem_mod hlt).mpr rfl
    have : eval (BDD.and s (item bits e)) (asgOfElem (e % 2 ^ bits)) = true := by rw [h]; exact h1
    rw [BDD.eval_and] at this
    simp only [mem]
    simp only [Bool.and_eq_true] at this
    exact this.1
  · intro h
    apply canonical_from (wf_and hs hi).1.1 (wf_and hs hi).1.2 hi.1.1 hi.1.2
    intro σ
    rw [BDD.eval_and]
    cases hit : eval (item bits e) σ
    · simp
    · have hagree : ∀ i, i < bits → σ i = asgOfElem (e % 2 ^ bits) i := by
        have := hit
        unfold item at this
        rw [eval_item_aux] at this
        simp only [eval_mkConst, Bool.true_and, List.all_eq_true, List.mem_range, beq_iff_eq] at this
        intro i hi'
        rw [this i hi']
        simp [asgOfElem, categorize, Nat.testBit_mod_two_pow, hi']
      have : eval s σ = eval s (asgOfElem (e % 2 ^ bits)) := eval_eq_of_agree_below hs.2 hagree
      rw [this]
      simp only [mem] at h
      simp [h]

/-- the assignment `σ` presents this integer on the bit variables -/
def elemOf (σ : Asg) : Nat → Nat
  | 0 => 0
  | n + 1 => elemOf σ n + (if σ n then 0 else 2 ^ n)

theorem elemOf_lt (σ : Asg) : ∀ n, elemOf σ n < 2 ^ n := by
  intro n
  induction n with
  | zero => simp [elemOf]
  | succ n ih =>
    simp only [elemOf]
    split <;> simp [Nat.pow_succ] <;> omega

theorem elemOf_testBit (σ : Asg) : ∀ n i, i < n → (elemOf σ n).testBit i = !σ i := by
  intro n
  induction n with
  | zero => intro i hi; omega
  | succ n ih =>
    intro i hi
    simp only [elemOf]
    have hlt := elemOf_lt σ n
    by_cases hin : i = n
    · subst hin
      cases hs : σ i
      · simp only [Bool.false_eq_true, ↓reduceIte, Bool.not_false]
        rw [Nat.add_comm, Nat.testBit_two_pow_add_eq]
        simp [Nat.testBit_lt_two_pow hlt]
      · simp [Nat.testBit_lt_two_pow hlt]
    · have hi' : i < n := by omega
      cases hs : σ n
      · simp only [Bool.false_eq_true, ↓reduceIte]
        rw [Nat.add_comm, Nat.testBit_two_pow_add_gt hi']
        exact ih i hi'
      · simp [ih i hi']

/-- two well-formed set diagrams are the same diagram exactly when they have the same members:
the derived `==` on sets of one environment decides set equality -/
theorem eq_iff_mem {bits : Nat} {a b : BDD} (ha : WFSet bits a) (hb : WFSet bits b) :
    a = b ↔ ∀ x, x < 2 ^ bits → mem a x = mem b x := by
  constructor
  · intro h x _; rw [h]
  · intro h
    apply canonical_from ha.1.1 ha.1.2 hb.1.1 hb.1.2
    intro σ
    have hag : ∀ i, i < bits → σ i = asgOfElem (elemOf σ bits) i := by
      intro i hi
      simp [asgOfElem, categorize, elemOf_testBit σ bits i hi]
    rw [eval_eq_of_agree_below ha.2 hag, eval_eq_of_agree_below hb.2 hag]
    exact h _ (elemOf_lt σ bits)


/-- reference sets: characteristic functions on b-bit integers -/
abbrev RefSet := Nat → Bool

def refStep (bits : Nat) (r : List RefSet) : SetOp → List RefSet × Option Bool
  | .insert i e => (r.set i (fun x => (r.getD i (fun _ => false)) x || decide (x = e % 2 ^ bits)), none)
  | .union i j => (r.set i (fun x => (r.getD i (fun _ => false)) x || (r.getD j (fun _ => false)) x), none)
  | .intersect i j => (r.set i (fun x => (r.getD i (fun _ => false)) x && (r.getD j (fun _ => false)) x), none)
  | .complement i j => (r.set i (fun x => (r.getD i (fun _ => false)) x && !((r.getD j (fun _ => false)) x)), none)
  | .empty i => (r.set i (fun _ => false), none)
  | .universe i => (r.set i (fun _ => true), none)
  | .contains i e => (r, some ((r.getD i (fun _ => false)) (e % 2 ^ bits)))
  | .newSet => (r ++ [((fun _ => false) : RefSet)], none)
  | .fromElement e => (r ++ [((fun x => decide (x = e % 2 ^ bits)) : RefSet)], none)
  | .clone i => (r ++ [r.getD i (fun _ => false)], none)
  | .equal i j => (r, some (decide (∀ x, x < 2 ^ bits → (r.getD i (fun _ => false)) x = (r.getD j (fun _ => false)) x)))

/-- the model's sets and the reference sets have the same members below `2^bits` -/
def Agree (st : State) (r : List RefSet) : Prop :=
  st.sets.length = r.length ∧
  ∀ i (s : BDD), st.sets[i]? = some s →
    WFSet st.bits s ∧ ∀ x, x < 2 ^ st.bits → mem s x = (r.getD i (fun _ => false)) x

theorem agree_set {st : State} {r : List RefSet} (h : Agree st r) {i : Nat} {s' : BDD} {f : RefSet}
    (hw : WFSet st.bits s') (hs : ∀ x, x < 2 ^ st.bits → mem s' x = f x) :
    Agree { st with sets := st.sets.set i s' } (r.set i f) := by
  refine ⟨by simp [h.1], ?_⟩
  intro k s hk
  simp only at hk
  by_cases hki : i = k
  · subst hki
    rw [List.getElem?_set] at hk
    by_cases hlt : i < st.sets.length
    · simp [hlt] at hk; subst hk
      have hlt' : i < r.length := by rw [← h.1]; exact hlt
      refine ⟨hw, fun x hx => ?_⟩
      rw [hs x hx]
      simp [List.getD_eq_getElem?_getD, hlt']
    · simp [hlt] at hk
  · rw [List.getElem?_set] at hk
    simp [hki] at hk
    obtain ⟨w, hm⟩ := h.2 k s hk
    refine ⟨w, fun x hx => ?_⟩
    rw [hm x hx]
    simp [List.getD_eq_getElem?_getD, hki]

/-- every operation keeps the sets in agreement with the reference and answers like it -/
theorem agree_push {st : State} {r : List RefSet} (h : Agree st r) {s' : BDD} {f : RefSet}
    (hw : WFSet st.bits s') (hs : ∀ x, x < 2 ^ st.bits → mem s' x = f x) :
    Agree { st with sets := st.sets ++ [s'] } (r ++ [f]) := by
  refine ⟨by simp [h.1], ?_⟩
  intro k s hk
  simp only at hk
  by_cases hlt : k < st.sets.length
  · rw [List.getElem?_append_left hlt] at hk
    obtain ⟨w, hm⟩ := h.2 k s hk
    refine ⟨w, fun x hx => ?_⟩
    rw [hm x hx]
    have hlt' : k < r.length := by rw [← h.1]; exact hlt
    simp [List.getD_eq_getElem?_getD, List.getElem?_append_left hlt']
  · rw [List.getElem?_append_right (by omega)] at hk
    have hk0 : k - st.sets.length = 0 := by
      cases hd : k - st.sets.length with
      | zero => rfl
      | succ n => rw [hd] at hk; simp at hk
    rw [hk0] at hk
    simp at hk; subst hk
    refine ⟨hw, fun x hx => ?_⟩
    rw [hs x hx]
    have : k = r.length := by rw [← h.1]; omega
    simp [List.getD_eq_getElem?_getD, this]

/-- every operation (for every machine integer as element, every index pair — including
`i = j` — and every constructor) keeps the sets in agreement with the reference and answers like it -/
theorem step_refines {st st' : State} {r : List RefSet} {op : SetOp} {ans : Option Bool}
    (h : Agree st r) (hs : step st op = some (st', ans)) :
    Agree st' (refStep st.bits r op).1 ∧ st'.bits = st.bits ∧ ans = (refStep st.bits r op).2 := by
  cases op with
  | insert i e =>
    simp only [step, Option.map_eq_some_iff] at hs
    obtain ⟨s, hsi, hpair⟩ := hs
    cases hpair
    obtain ⟨hw, hm⟩ := h.2 i s hsi
    refine ⟨agree_set h (wf_or hw (wf_item _ _)) (fun x hx => ?_), rfl, rfl⟩
    simp only [mem, BDD.eval_or]
    have h1 := hm x hx
    simp only [mem] at h1
    rw [h1]
    have h2 := item_mem_mod (bits := st.bits) (e := e) hx
    simp only [mem] at h2
    cases hit : eval (item st.bits e) (asgOfElem x)
    · have : ¬ x = e % 2 ^ st.bits := fun e' => by rw [h2.mpr e'] at hit; simp at hit
      simp [this]
    · simp [h2.mp hit]
  | union i j =>
    simp only [step, Option.bind_eq_bind] at hs
    cases hi : st.sets[i]? with
    | none => simp [hi] at hs
    | some a =>
      cases hj : st.sets[j]? with
      | none => simp [hi, hj] at hs
      | some b =>
        simp [hi, hj] at hs
        obtain ⟨rfl, rfl⟩ := hs
        obtain ⟨wa, ma⟩ := h.2 i a hi; obtain ⟨wb, mb⟩ := h.2 j b hj
        refine ⟨agree_set h (wf_or wa wb) (fun x hx => ?_), rfl, rfl⟩
        simp only [mem, BDD.eval_or]
        have h1 := ma x hx; have h2 := mb x hx
        simp only [mem] at h1 h2
        rw [h1, h2]
  | intersect i j =>
    simp only [step, Option.bind_eq_bind] at hs
    cases hi : st.sets[i]? with
    | none => simp [hi] at hs
    | some a =>
      cases hj : st.sets[j]? with
      | none => simp [hi, hj] at hs
      | some b =>
        simp [hi, hj] at hs
        obtain ⟨rfl, rfl⟩ := hs
        obtain ⟨wa, ma⟩ := h.2 i a hi; obtain ⟨wb, mb⟩ := h.2 j b hj
        refine ⟨agree_set h (wf_and wa wb) (fun x hx => ?_), rfl, rfl⟩
        simp only [mem, BDD.eval_and]
        have h1 := ma x hx; have h2 := mb x hx
        simp only [mem] at h1 h2
        rw [h1, h2]
  | complement i j =>
    simp only [step, Option.bind_eq_bind] at hs
    cases hi : st.sets[i]? with
    | none => simp [hi] at hs
    | some a =>
      cases hj : st.sets[j]? with
      | none => simp [hi, hj] at hs
      | some b =>
        simp [hi, hj] at hs
        obtain ⟨rfl, rfl⟩ := hs
        obtain ⟨wa, ma⟩ := h.2 i a hi; obtain ⟨wb, mb⟩ := h.2 j b hj
        refine ⟨agree_set h (wf_and wa (wf_not wb)) (fun x hx => ?_), rfl, rfl⟩
        simp only [mem, BDD.eval_and, BDD.eval_not]
        have h1 := ma x hx; have h2 := mb x hx
        simp only [mem] at h1 h2
        rw [h1, h2]
  | empty i =>
    simp only [step, Option.map_eq_some_iff] at hs
    obtain ⟨s, _, hpair⟩ := hs
    cases hpair
    exact ⟨agree_set h (wf_const _ false) (fun x _ => by simp [mem]), rfl, rfl⟩
  | «universe» i =>
    simp only [step, Option.map_eq_some_iff] at hs
    obtain ⟨s, _, hpair⟩ := hs
    cases hpair
    exact ⟨agree_set h (wf_const _ true) (fun x _ => by simp [mem]), rfl, rfl⟩
  | contains i e =>
    simp only [step, Option.map_eq_some_iff] at hs
    obtain ⟨s, hsi, hpair⟩ := hs
    cases hpair
    obtain ⟨hw, hm⟩ := h.2 i s hsi
    refine ⟨h, rfl, ?_⟩
    simp only [refStep]
    congr 1
    rw [← hm _ (Nat.mod_lt _ (Nat.two_pow_pos _))]
    have := contains_iff_mod (e := e) hw
    cases hx : mem s (e % 2 ^ st.bits)
    · simp [hx] at this; simp [this]
    · simp [hx] at this; simp [this]
  | newSet =>
    simp only [step, Option.some.injEq, Prod.mk.injEq] at hs
    obtain ⟨rfl, rfl⟩ := hs
    exact ⟨agree_push h (wf_const _ false) (fun x _ => by simp [mem]), rfl, rfl⟩
  | fromElement e =>
    simp only [step, Option.some.injEq, Prod.mk.injEq] at hs
    obtain ⟨rfl, rfl⟩ := hs
    refine ⟨agree_push h (wf_or (wf_const _ false) (wf_item _ _)) (fun x hx => ?_), rfl, rfl⟩
    simp only [mem, BDD.eval_or, eval_mkConst, Bool.false_or]
    have h2 := item_mem_mod (bits := st.bits) (e := e) hx
    simp only [mem] at h2
    cases hit : eval (item st.bits e) (asgOfElem x)
    · have : ¬ x = e % 2 ^ st.bits := fun e' => by rw [h2.mpr e'] at hit; simp at hit
      simp [this]
    · simp [h2.mp hit]
  | clone i =>
    simp only [step, Option.map_eq_some_iff] at hs
    obtain ⟨s, hsi, hpair⟩ := hs
    cases hpair
    obtain ⟨hw, hm⟩ := h.2 i s hsi
    exact ⟨agree_push h hw hm, rfl, rfl⟩
  | equal i j =>
    simp only [step, Option.bind_eq_bind] at hs
    cases hi : st.sets[i]? with
    | none => simp [hi] at hs
    | some a =>
      cases hj : st.sets[j]? with
      | none => simp [hi, hj] at hs
      | some b =>
        simp [hi, hj] at hs
        obtain ⟨rfl, rfl⟩ := hs
        obtain ⟨wa, ma⟩ := h.2 i a hi; obtain ⟨wb, mb⟩ := h.2 j b hj
        refine ⟨h, rfl, ?_⟩
        simp only [refStep]
        congr 1
        have := eq_iff_mem wa wb
        by_cases hab : a = b
        · simp only [hab, decide_true]
          symm; rw [decide_eq_true_iff]
          intro x hx; rw [← ma x hx, ← mb x hx, hab]
        · simp only [hab, decide_false]
          symm; rw [decide_eq_false_iff_not]
          intro hall
          exact hab (this.mpr (fun x hx => by rw [ma x hx, mb x hx]; exact hall x hx))

/-- a query does not modify any set -/
theorem contains_pure {st st' : State} {i e : Nat} {ans : Option Bool}
    (hs : step st (.contains i e) = some (st', ans)) : st' = st := by
  simp only [step, Option.map_eq_some_iff] at hs
  obtain ⟨s, _, hpair⟩ := hs
  cases hpair; rfl

/-- passing the same object as both operands is never an error -/
theorem alias_ok (st : State) (i : Nat) (hi : i < st.sets.length) :
    (step st (.union i i)).isSome ∧ (step st (.intersect i i)).isSome ∧ (step st (.complement i i)).isSome := by
  have : ∃ s, st.sets[i]? = some s := ⟨st.sets[i], by simp [hi]⟩
  obtain ⟨s, hs⟩ := this
  simp [step, hs]

def run : State → List SetOp → Option (State × List (Option Bool))
  | st, [] => some (st, [])
  | st, op :: ops =>
    match step st op with
    | none => none
    | some (st', a) => (run st' ops).map (fun r => (r.1, a :: r.2))

def refRun (bits : Nat) : List RefSet → List SetOp → List RefSet × List (Option Bool)
  | r, [] => (r, [])
  | r, op :: ops => let r' := refStep bits r op; let rest := refRun bits r'.1 ops; (rest.1, r'.2 :: rest.2)

/-- for every history: the final sets agree with the reference sets and every query was
answered like the reference -/
theorem run_refines : ∀ (ops : List SetOp) (st : State) (r : List RefSet), Agree st r →
    ∀ st' answers, run st ops = some (st', answers) →
      Agree st' (refRun st.bits r ops).1 ∧ answers = (refRun st.bits r ops).2 := by
  intro ops
  induction ops with
  | nil => intro st r h st' answers hr; simp [run] at hr; obtain ⟨rfl, rfl⟩ := hr; exact ⟨h, rfl⟩
  | cons op ops ih =>
    intro st r h st' answers hr
    simp only [run] at hr
    cases hst : step st op with
    | none => simp [hst] at hr
    | some p =>
      obtain ⟨st1, a⟩ := p
      simp only [hst, Option.map_eq_some_iff] at hr
      obtain ⟨⟨st2, as⟩, hrun, hpair⟩ := hr
      cases hpair
      obtain ⟨h1, hb, ha⟩ := step_refines h hst
      have := ih st1 (refStep st.bits r op).1 h1 st2 as hrun
      rw [hb] at this
      exact ⟨this.1, by simp [refRun, ha, this.2]⟩

/-- the equality query does not modify any set either -/
theorem equal_pure {st st' : State} {i j : Nat} {ans : Option Bool}
    (hs : step st (.equal i j) = some (st', ans)) : st' = st := by
  simp only [step, Option.bind_eq_bind] at hs
  cases hi : st.sets[i]? with
  | none => simp [hi] at hs
  | some a =>
    cases hj : st.sets[j]? with
    | none => simp [hi, hj] at hs
    | some b => simp [hi, hj] at hs; exact hs.1.symm

/-- a new object (`clone`, `from_element`, `with_env`) leaves every existing object as it was, and
later operations on the copy do not reach the original: objects are independent cells -/
theorem constructors_keep {st st' : State} {op : SetOp} {ans : Option Bool}
    (hop : op = .newSet ∨ (∃ e, op = .fromElement e) ∨ ∃ i, op = .clone i)
    (hs : step st op = some (st', ans)) : ∀ k, k < st.sets.length → st'.sets[k]? = st.sets[k]? := by
  intro k hk
  rcases hop with rfl | ⟨e, rfl⟩ | ⟨i, rfl⟩
  · simp only [step, Option.some.injEq, Prod.mk.injEq] at hs
    obtain ⟨rfl, _⟩ := hs; simp [List.getElem?_append_left hk]
  · simp only [step, Option.some.injEq, Prod.mk.injEq] at hs
    obtain ⟨rfl, _⟩ := hs; simp [List.getElem?_append_left hk]
  · simp only [step, Option.map_eq_some_iff] at hs
    obtain ⟨s, _, hpair⟩ := hs
    cases hpair; simp [List.getElem?_append_left hk]

/-- the initial state: every set empty -/
theorem agree_init (bits n : Nat) :
    Agree { bits, sets := List.replicate n (BDD.mkConst false) } (List.replicate n (fun _ => false)) := by
  refine ⟨by simp, ?_⟩
  intro i s hs
  rw [List.getElem?_replicate] at hs
  split at hs
  · rename_i hlt
    cases hs
    refine ⟨wf_const _ false, fun x _ => ?_⟩
    have : (List.replicate n (fun (_ : Nat) => false)).getD i (fun _ => false) = fun _ => false := by
      simp [List.getD_eq_getElem?_getD, List.getElem?_replicate, hlt]
    rw [this]; simp [mem]
  · simp at hs

-- non-vacuity: {1,2}.contains(1) then .contains(2), and s.union(s)
example : (run { bits := 2, sets := [BDD.mkConst false] }
    [.insert 0 1, .insert 0 2, .contains 0 1, .contains 0 2, .union 0 0, .contains 0 3]).map (·.2) =
    some [none, none, some true, some true, none, some false] := by decide +kernel
-- elements beyond the width are read modulo 2^bits; a clone is independent of its original
example : (run { bits := 2, sets := [BDD.mkConst false] }
    [.insert 0 6, .contains 0 2, .clone 0, .equal 0 1, .insert 1 3, .equal 0 1, .contains 0 3, .fromElement 2, .equal 0 2]).map (·.2) =
    some [none, some true, none, some true, none, some false, some false, none, some true] := by decide +kernel

end Rsbdd.C19
