/-
C17 for the default variable order: `sudoku_gen | rsbdd` as it is used.  From `sudoku_text_tokens` (Thm/C17T: the
bytes lex to the canonical tokens under an ordering that numbers the names injectively), the generic
`default_order_transfer` (Proofs/DefaultOrder.lean: without an ordering the same text is accepted, parses to the renamed
tree and evaluates to a diagram that is the renamed function) and `sudoku_models` (Thm/C17): the diagram the solver
returns is true exactly on the completed grids that keep the givens, its variables read through the names `_c_is_d`.
-/
import Rsbdd.Thm.C17T
import Rsbdd.Proofs.DefaultOrder
namespace Rsbdd.C17
open Parser Gen.Sudoku C11 Grammar Formula BDD

theorem mem_itemsToks (vid : Nat → Nat → Nat) : ∀ (cells : List (Nat × Nat)) (p : Nat × Nat), p ∈ cells →
    Token.var (varStr p.1 p.2) (vid p.1 p.2) ∈ itemsToks vid cells
  | [], _, h => by simp at h
  | [q], p, h => by simp at h; subst h; simp [itemsToks]
  | q :: q' :: r, p, h => by
    simp only [List.mem_cons] at h
    rcases h with rfl | h
    · simp [itemsToks]
    · have := mem_itemsToks vid (q' :: r) p (by simpa using h)
      simp [itemsToks, this]

/-- every cell variable in range is named in the text (in the "each cell holds exactly one number" lists) -/
theorem cellVar_in_tokens (vid : Nat → Nat → Nat) (root : Nat) (puzzle : List Char) (c d0 : Nat)
    (hc : c < root * root * (root * root)) (hd : d0 < root * root) :
    Token.var (varStr c (d0 + 1)) (vid c (d0 + 1)) ∈ (allLines root puzzle).flatMap (SLine.toks vid) := by
  rw [List.mem_flatMap]
  refine ⟨SLine.list ((List.range (root * root)).map (fun j => (c, j + 1))), ?_, ?_⟩
  · simp only [allLines, cellsL, List.mem_append, List.mem_map, List.mem_range]
    left; left; right
    exact ⟨c, hc, rfl⟩
  · simp only [SLine.toks]
    apply List.mem_cons_of_mem
    apply List.mem_append_left
    exact mem_itemsToks vid _ (c, d0 + 1) (List.mem_map.mpr ⟨d0, List.mem_range.mpr hd, rfl⟩)

/-- triangular numbers, and the pairing `(c, d) ↦ T(c + d) + d` -/
def tri : Nat → Nat
  | 0 => 0
  | n + 1 => tri n + (n + 1)

def pairId (c d : Nat) : Nat := tri (c + d) + d

theorem tri_mono : ∀ m n : Nat, m < n → tri m + m < tri n := by
  intro m n hmn
  induction n with
  | zero => omega
  | succ n ih =>
    rcases Nat.lt_or_ge m n with h1 | h1
    · have := ih h1; simp only [tri]; omega
    · have : m = n := by omega
      subst this; simp only [tri]; omega

theorem pairId_inj : ∀ c d c' d', pairId c d = pairId c' d' → c = c' ∧ d = d' := by
  intro c d c' d' h
  simp only [pairId] at h
  have hs : c + d = c' + d' := by
    rcases Nat.lt_trichotomy (c + d) (c' + d') with h1 | h1 | h1
    · have := tri_mono _ _ h1; omega
    · exact h1
    · have := tri_mono _ _ h1; omega
  rw [hs] at h
  omega

/-- C17 for the way the tool is used (`sudoku_gen | rsbdd`, default variable order): the text is accepted, and the
diagram the solver returns for it is true exactly on the completed grids that keep the givens — an assignment of the
solver's variables being read through the names `_c_is_d` -/
theorem sudoku_text_default (k : Char → Cls) (version : String) (hv : '"' ∉ version.toList) (root : Nat)
    (puzzle : List Char)
    (hscope : ∀ c d, c < root * root * (root * root) → (digitsOf puzzle)[c]? = some (some d) → 1 ≤ d ∧ d ≤ root * root)
    (iters : Nat) :
    ∃ ts f b, tokenize (textCh k version root puzzle) [] = some ts ∧ parseFormula ts = some f ∧
      evalF iters (depth f) f = some b ∧ ROBDD b ∧
      ∀ (σ : Asg) (ν : String → Bool), (∀ name j, Token.var name j ∈ ts → σ j = ν name) →
        (eval b σ = true ↔ ∃ g, ValidGrid root (digitsOf puzzle) g ∧
          ∀ c d0, c < root * root * (root * root) → d0 < root * root → (ν (varStr c (d0 + 1)) = true ↔ g c = d0 + 1)) := by
  -- a pairing function numbers the names injectively
  have hvid := pairId_inj
  have ht1 := sudoku_text_tokens k version hv root puzzle pairId hvid
  have hsub : Sub ((allLines root puzzle).flatMap (SLine.toks pairId) ++ [Token.true_]) (formula root (digitsOf puzzle) pairId) := by
    rw [formula_eq]; exact sub_slines pairId (allLines root puzzle)
  obtain ⟨ts2, b, π, ht2, hp2, hb, hr, _, hmem, hsem⟩ :=
    default_order_transfer (nameOrdering_ok pairId hvid root puzzle) ht1 hsub (formula_good root (digitsOf puzzle) pairId).2 iters
  refine ⟨ts2, _, b, ht2, hp2, hb, hr, ?_⟩
  intro σ ν hσ
  rw [hsem σ, sudoku_models root (digitsOf puzzle) pairId _ hscope]
  constructor
  · rintro ⟨g, hg, henc⟩
    refine ⟨g, hg, ?_⟩
    intro c d0 hc hd
    have hm := hmem _ _ (List.mem_append_left _ (cellVar_in_tokens pairId root puzzle c d0 hc hd))
    rw [← hσ _ _ hm]
    exact henc c d0 hc hd
  · rintro ⟨g, hg, hν⟩
    refine ⟨g, hg, ?_⟩
    intro c d0 hc hd
    have hm := hmem _ _ (List.mem_append_left _ (cellVar_in_tokens pairId root puzzle c d0 hc hd))
    show σ (π.f (pairId c (d0 + 1))) = true ↔ _
    rw [hσ _ _ hm]
    exact hν c d0 hc hd

end Rsbdd.C17
