/-
C15, structurally: WHICH lists of counting constraints over the cells of an n x n board have exactly the n-queens
placements as their models — whatever their number, order and spelling.  `structural` answers it with two conditions,
the ones the correspondence run checks on the parsed output (the pair-coverage oracle for small boards, the summary of
large ones):

 * every constraint is GOOD: an at-most-one (`<= 1` or `< 2`) over cells of the board that pairwise attack each other,
   or an exactly-one over a whole row or a whole column;
 * the list COVERS the board: every row and every column stands under an exactly-one, and every two cells on a common
   diagonal stand together under some constraint that leaves room for at most one queen.

`Queens.formula n` is one such list (Thm/C15 `queens_correct`); so is the same list with its constraints reordered, with
the one-cell diagonals dropped, or with `<= 1` written `< 2` — the changes of the property-preserving rounds — which is
why those do not change the models.
-/
import Rsbdd.Thm.C15
import Rsbdd.Thm.C15D

namespace Rsbdd.C15
open BDD Gen.Queens Puzzles

/-- two different cells of the board see each other along a row, a column or a diagonal -/
def Attack (n a b : Nat) : Prop :=
  a ≠ b ∧ (a / n = b / n ∨ a % n = b % n ∨ a / n + b % n = b / n + a % n ∨ a / n + a % n = b / n + b % n)

/-- `[..] op k` written so that it says "at most one": `<= 1` or `< 2` -/
def SaysAtMostOne (c : Constraint) : Prop := (c.op = .atMost ∧ c.bound = 1) ∨ (c.op = .lessThan ∧ c.bound = 2)

/-- `[..] op k` leaves room for at most one true operand (also `= 1`, and the degenerate smaller bounds) -/
def LeavesRoomForOne (c : Constraint) : Prop :=
  (c.op = .atMost ∧ c.bound ≤ 1) ∨ (c.op = .exactly ∧ c.bound ≤ 1) ∨ (c.op = .lessThan ∧ c.bound ≤ 2)

def rowCells (n r : Nat) : List Nat := (List.range n).map (fun c => r * n + c)
def colCells (n c : Nat) : List Nat := (List.range n).map (fun r => r * n + c)

/-- a constraint every placement satisfies -/
inductive Good (n : Nat) : Constraint → Prop
  | line (c : Constraint) : SaysAtMostOne c → c.cells.Nodup → (∀ a ∈ c.cells, a < n * n) →
      (∀ a ∈ c.cells, ∀ b ∈ c.cells, a ≠ b → Attack n a b) → Good n c
  | row (c : Constraint) (r : Nat) : r < n → c.op = .exactly → c.bound = 1 → c.cells.Perm (rowCells n r) → Good n c
  | col (c : Constraint) (k : Nat) : k < n → c.op = .exactly → c.bound = 1 → c.cells.Perm (colCells n k) → Good n c

/-- the constraints leave no non-placement through -/
structure Covers (n : Nat) (cs : List Constraint) : Prop where
  rows : ∀ r, r < n → ∃ c ∈ cs, c.op = .exactly ∧ c.bound = 1 ∧ c.cells.Perm (rowCells n r)
  cols : ∀ k, k < n → ∃ c ∈ cs, c.op = .exactly ∧ c.bound = 1 ∧ c.cells.Perm (colCells n k)
  diags : ∀ r c r' c', r < n → c < n → r' < n → c' < n → ¬ (r = r' ∧ c = c') →
    (r + c' = r' + c ∨ r + c = r' + c') →
    ∃ k ∈ cs, LeavesRoomForOne k ∧ r * n + c ∈ k.cells ∧ r' * n + c' ∈ k.cells

/-! ### counting -/

theorem trueCount_perm {l₁ l₂ : List Nat} (h : l₁.Perm l₂) (σ : Asg) : trueCount l₁ σ = trueCount l₂ σ := by
  unfold trueCount
  exact (h.filter _).length_eq

/-- two different members that are true make the count at least two -/
theorem two_le_trueCount : ∀ (l : List Nat) (σ : Asg) (a b : Nat), a ∈ l → b ∈ l → a ≠ b → σ a = true → σ b = true →
    2 ≤ trueCount l σ
  | [], _, _, _, ha, _, _, _, _ => by simp at ha
  | x :: l, σ, a, b, ha, hb, hab, qa, qb => by
    have one : ∀ (l : List Nat) (y : Nat), y ∈ l → σ y = true → 1 ≤ trueCount l σ := by
      intro l y hy qy
      unfold trueCount
      exact List.length_pos_of_mem (List.mem_filter.mpr ⟨hy, by simpa using qy⟩)
    simp only [List.mem_cons] at ha hb
    unfold trueCount at *
    rcases ha with rfl | ha
    · rcases hb with rfl | hb
      · exact absurd rfl hab
      · have := one l b hb qb
        unfold trueCount at this
        simp [List.filter_cons, qa]; omega
    · rcases hb with rfl | hb
      · have := one l a ha qa
        unfold trueCount at this
        simp [List.filter_cons, qb]; omega
      · have := two_le_trueCount l σ a b ha hb hab qa qb
        unfold trueCount at this
        by_cases qx : σ x = true
        · simp [List.filter_cons, qx]; omega
        · simp [List.filter_cons, qx]; omega

/-- a duplicate-free list in which no two different members are both true has at most one true member -/
theorem trueCount_le_one_of : ∀ (l : List Nat) (σ : Asg), l.Nodup →
    (∀ a ∈ l, ∀ b ∈ l, a ≠ b → σ a = true → σ b = true → False) → trueCount l σ ≤ 1
  | [], _, _, _ => by simp [trueCount]
  | x :: l, σ, hnd, h => by
    have hnd' := List.nodup_cons.mp hnd
    have ih := trueCount_le_one_of l σ hnd'.2 (fun a ha b hb => h a (by simp [ha]) b (by simp [hb]))
    unfold trueCount at *
    by_cases qx : σ x = true
    · have h0 : (l.filter (fun v => σ v)).length = 0 := by
        rw [List.length_eq_zero_iff, List.filter_eq_nil_iff]
        intro y hy qy
        have hne : x ≠ y := fun e => hnd'.1 (e ▸ hy)
        exact h x (by simp) y (by simp [hy]) hne qx (by simpa using qy)
      simp [List.filter_cons, qx, h0]
    · simp [List.filter_cons, qx]; exact ih

theorem not_sem_of_two {c : Constraint} (h : LeavesRoomForOne c) {k : Nat} (hk : 2 ≤ k) : ¬ c.op.sem k c.bound := by
  rcases h with ⟨ho, hb⟩ | ⟨ho, hb⟩ | ⟨ho, hb⟩ <;> rw [ho] <;> simp only [CntOp.sem] <;> omega

theorem cell_div_mod {n a : Nat} (ha : a < n * n) : a / n < n ∧ a % n < n ∧ a = a / n * n + a % n := by
  have hn : 0 < n := by
    rcases Nat.eq_zero_or_pos n with h | h
    · subst h; simp at ha
    · exact h
  refine ⟨(Nat.div_lt_iff_lt_mul hn).mpr ha, Nat.mod_lt _ hn, ?_⟩
  have := Nat.div_add_mod a n
  rw [Nat.mul_comm] at this
  omega

/-! ### the theorem -/

/-- a list of good constraints that covers the board holds exactly on the placements of n queens -/
theorem structural (n : Nat) (cs : List Constraint) (hgood : ∀ c ∈ cs, Good n c) (hcov : Covers n cs) (σ : Asg) :
    (∀ c ∈ cs, c.op.sem (trueCount c.cells σ) c.bound) ↔ NQueens n σ := by
  constructor
  · intro h
    refine ⟨?_, ?_, ?_⟩
    · intro r hr
      obtain ⟨c, hc, ho, hb, hp⟩ := hcov.rows r hr
      have := h c hc
      rw [ho, hb, trueCount_perm hp] at this
      exact this
    · intro k hk
      obtain ⟨c, hc, ho, hb, hp⟩ := hcov.cols k hk
      have := h c hc
      rw [ho, hb, trueCount_perm hp] at this
      exact this
    · intro r c r' c' hr hc hr' hc' hne qa qb
      by_cases hd : r + c' = r' + c ∨ r + c = r' + c'
      · exfalso
        obtain ⟨k, hk, hroom, ma, mb⟩ := hcov.diags r c r' c' hr hc hr' hc' hne hd
        have hab : r * n + c ≠ r' * n + c' := fun e => hne (cell_inj hc hc' e)
        exact not_sem_of_two hroom (two_le_trueCount k.cells σ _ _ ma mb hab qa qb) (h k hk)
      · omega
  · rintro ⟨hrow, hcol, hdiag⟩ c hc
    cases hgood c hc with
    | row r hr ho hb hp => rw [ho, hb, trueCount_perm hp]; exact hrow r hr
    | col k hk ho hb hp => rw [ho, hb, trueCount_perm hp]; exact hcol k hk
    | line hs hnd hin hatt =>
      have hle : trueCount c.cells σ ≤ 1 := by
        apply trueCount_le_one_of c.cells σ hnd
        intro a ha b hb hab qa qb
        obtain ⟨ar, ac, ea⟩ := cell_div_mod (hin a ha)
        obtain ⟨br, bc, eb⟩ := cell_div_mod (hin b hb)
        obtain ⟨_, hcase⟩ := hatt a ha b hb hab
        rw [ea] at qa; rw [eb] at qb
        have hne : ¬ (a / n = b / n ∧ a % n = b % n) := by
          rintro ⟨e1, e2⟩; apply hab; rw [ea, eb, e1, e2]
        rcases hcase with hrw | hcl | hd1 | hd2
        · -- the same row: two queens in it
          have h1 := hrow (a / n) ar
          have hma : a / n * n + a % n ∈ rowCells n (a / n) := by
            simp only [rowCells, List.mem_map, List.mem_range]; exact ⟨a % n, ac, rfl⟩
          have hmb : b / n * n + b % n ∈ rowCells n (a / n) := by
            simp only [rowCells, List.mem_map, List.mem_range]; exact ⟨b % n, bc, by rw [hrw]⟩
          have hne' : a / n * n + a % n ≠ b / n * n + b % n := by rw [← ea, ← eb]; exact hab
          have := two_le_trueCount (rowCells n (a / n)) σ _ _ hma hmb hne' qa qb
          unfold rowCells at this
          omega
        · -- the same column
          have h1 := hcol (a % n) ac
          have hma : a / n * n + a % n ∈ colCells n (a % n) := by
            simp only [colCells, List.mem_map, List.mem_range]; exact ⟨a / n, ar, rfl⟩
          have hmb : b / n * n + b % n ∈ colCells n (a % n) := by
            simp only [colCells, List.mem_map, List.mem_range]; exact ⟨b / n, br, by rw [hcl]⟩
          have hne' : a / n * n + a % n ≠ b / n * n + b % n := by rw [← ea, ← eb]; exact hab
          have := two_le_trueCount (colCells n (a % n)) σ _ _ hma hmb hne' qa qb
          unfold colCells at this
          omega
        · exact (hdiag (a / n) (a % n) (b / n) (b % n) ar ac br bc hne qa qb).1 hd1
        · exact (hdiag (a / n) (a % n) (b / n) (b % n) ar ac br bc hne qa qb).2 hd2
      rcases hs with ⟨ho, hb⟩ | ⟨ho, hb⟩ <;> rw [ho, hb] <;> simp only [CntOp.sem] <;> omega

theorem foldr_toFormula : ∀ (cs : List Constraint),
    cs.foldr (fun c acc => Formula.bin .and c.toFormula acc) .true_ =
      (cs.map Constraint.toFormula).foldr (fun f acc => .bin .and f acc) .true_
  | [] => rfl
  | c :: cs => by simp [foldr_toFormula cs]

/-- the same for the formula built from such a list (the conjunction the generator writes, ending in `true`) -/
theorem structural_formula (n : Nat) (cs : List Constraint) (hgood : ∀ c ∈ cs, Good n c) (hcov : Covers n cs) (σ : Asg) :
    Sem (cs.foldr (fun c acc => Formula.bin .and c.toFormula acc) .true_) FEnv.empty σ ↔ NQueens n σ := by
  rw [foldr_toFormula, sem_conj]
  simp only [List.mem_map, forall_exists_index, and_imp, forall_apply_eq_imp_iff₂, Constraint.toFormula,
    sem_cntConst_vars]
  exact structural n cs hgood hcov σ

/-- the order of the constraints does not matter, nor does a constraint written twice -/
theorem structural_perm (n : Nat) (cs cs' : List Constraint) (h : ∀ c, c ∈ cs ↔ c ∈ cs')
    (hgood : ∀ c ∈ cs, Good n c) (hcov : Covers n cs) : (∀ c ∈ cs', Good n c) ∧ Covers n cs' := by
  refine ⟨fun c hc => hgood c ((h c).mpr hc), ?_, ?_, ?_⟩
  · intro r hr; obtain ⟨c, hc, rest⟩ := hcov.rows r hr; exact ⟨c, (h c).mp hc, rest⟩
  · intro k hk; obtain ⟨c, hc, rest⟩ := hcov.cols k hk; exact ⟨c, (h c).mp hc, rest⟩
  · intro r c r' c' a b d e f g; obtain ⟨k, hk, rest⟩ := hcov.diags r c r' c' a b d e f g; exact ⟨k, (h k).mp hk, rest⟩

/-- non-vacuity: the board of one cell -/
example : (∀ c ∈ [(⟨[0], .exactly, 1⟩ : Constraint)], Good 1 c) ∧ Covers 1 [⟨[0], .exactly, 1⟩] := by
  refine ⟨?_, ?_, ?_, ?_⟩
  · intro c hc
    simp only [List.mem_singleton] at hc
    subst hc
    exact Good.row _ 0 (by omega) rfl rfl (by simp [rowCells])
  · intro r hr
    have : r = 0 := by omega
    subst this
    exact ⟨⟨[0], .exactly, 1⟩, by simp, rfl, rfl, by simp [rowCells]⟩
  · intro k hk
    have : k = 0 := by omega
    subst this
    exact ⟨⟨[0], .exactly, 1⟩, by simp, rfl, rfl, by simp [colCells]⟩
  · intro r c r' c' hr hc hr' hc' hne
    exfalso; apply hne; omega

end Rsbdd.C15
