/-
C16 / C18 (`--convert`), the input side: the edge list the tools read from a text (`CsvInput.readEdges`, the model of
what the `csv` crate's reader hands them) is the list that was written, whatever the line endings (LF, CR LF, a lone
CR), with blank lines anywhere, with or without a terminator after the last record (`readEdges_render`,
`readEdges_render_last`); a record without exactly two fields is not read (`edgeOfRecord_none`).
-/
import Rsbdd.Proofs.CsvInput1
import Rsbdd.Proofs.CliRead3
import Rsbdd.Thm.C16D

namespace Rsbdd.C16
open Rsbdd Rsbdd.Gen.CsvInput
open Rsbdd.Cli.Text (splitAcc allSome allSome_map allSome_append)

/-- a vertex name as it stands in an unquoted csv field -/
def FieldOk (n : List Char) : Prop := ∀ c ∈ n, c ≠ ',' ∧ c ≠ '\n' ∧ c ≠ '\r' ∧ c ≠ '"'

/-- what ends a record: one or more line feeds / carriage returns (LF, CR LF, CR, and blank lines after it) -/
def TermOk (t : List Char) : Prop := t ≠ [] ∧ ∀ c ∈ t, c = '\n' ∨ c = '\r'

theorem isTerm_of_field {n : List Char} (h : FieldOk n) : ∀ c ∈ n, isTerm c = false := by
  intro c hc
  have := h c hc
  simp [isTerm, this.2.1, this.2.2.1]

theorem isTerm_of_term {t : List Char} (h : TermOk t) : ∀ c ∈ t, isTerm c = true := by
  intro c hc
  rcases h.2 c hc with rfl | rfl <;> simp [isTerm]

theorem record_noterm (e : Edge) (h1 : FieldOk e.1) (h2 : FieldOk e.2) :
    ∀ c ∈ e.1 ++ [','] ++ e.2, isTerm c = false := by
  intro c hc
  simp only [List.mem_append, List.mem_cons, List.not_mem_nil, or_false] at hc
  rcases hc with (hc | rfl) | hc
  · exact isTerm_of_field h1 c hc
  · simp [isTerm]
  · exact isTerm_of_field h2 c hc

theorem records_render : ∀ (es : List (Edge × List Char)) (rest : List Char),
    (∀ p ∈ es, FieldOk p.1.1 ∧ FieldOk p.1.2 ∧ TermOk p.2) →
    records (render es ++ rest) [] = es.map (fun p => p.1.1 ++ [','] ++ p.1.2) ++ records rest []
  | [], rest, _ => by simp [render]
  | p :: es, rest, h => by
    obtain ⟨h1, h2, h3⟩ := h p (by simp)
    have ih := records_render es rest (fun q hq => h q (by simp [hq]))
    have hl := records_line (p.1.1 ++ [','] ++ p.1.2) p.2 (render es ++ rest) (record_noterm p.1 h1 h2) (by simp)
      (isTerm_of_term h3) h3.1
    have e : render (p :: es) ++ rest = (p.1.1 ++ [','] ++ p.1.2) ++ p.2 ++ (render es ++ rest) := by
      simp [render, line]
    rw [e, hl, ih]; simp

theorem quote_not_in_render (es : List (Edge × List Char))
    (h : ∀ p ∈ es, FieldOk p.1.1 ∧ FieldOk p.1.2 ∧ TermOk p.2) : '"' ∉ render es := by
  intro hq
  simp only [render, line, List.mem_flatMap, List.mem_append, List.mem_cons, List.not_mem_nil, or_false] at hq
  obtain ⟨p, hp, hc⟩ := hq
  obtain ⟨h1, h2, h3⟩ := h p hp
  rcases hc with ((hc | hc) | hc) | hc
  · exact (h1 _ hc).2.2.2 rfl
  · exact absurd hc (by decide)
  · exact (h2 _ hc).2.2.2 rfl
  · rcases h3.2 _ hc with h | h <;> exact absurd h (by decide)

theorem edges_of_records (es : List (Edge × List Char))
    (h : ∀ p ∈ es, FieldOk p.1.1 ∧ FieldOk p.1.2 ∧ TermOk p.2) :
    allSome ((es.map (fun p => p.1.1 ++ [','] ++ p.1.2)).map edgeOfRecord) = some (es.map (·.1)) := by
  rw [List.map_map]
  apply allSome_map
  intro p hp
  obtain ⟨h1, h2, _⟩ := h p hp
  exact edgeOfRecord_line p.1.1 p.1.2 (fun hc => (h1 _ hc).1 rfl) (fun hc => (h2 _ hc).1 rfl)

/-- every record followed by a terminator of any of the three kinds (and by any number of blank lines): the list read is
the list written, in order, duplicates included -/
theorem readEdges_render (es : List (Edge × List Char))
    (h : ∀ p ∈ es, FieldOk p.1.1 ∧ FieldOk p.1.2 ∧ TermOk p.2)
    (hbom : dropBom (render es) = render es) :
    readEdges (render es) = some (es.map (·.1)) := by
  unfold readEdges
  rw [if_neg (quote_not_in_render es h), hbom]
  have := records_render es [] h
  simp only [List.append_nil, records, List.isEmpty_nil, if_true] at this
  rw [this]
  exact edges_of_records es h

/-- the last record may lack its terminator -/
theorem readEdges_render_last (es : List (Edge × List Char)) (e : Edge)
    (h : ∀ p ∈ es, FieldOk p.1.1 ∧ FieldOk p.1.2 ∧ TermOk p.2) (h1 : FieldOk e.1) (h2 : FieldOk e.2)
    (hbom : dropBom (render es ++ (e.1 ++ [','] ++ e.2)) = render es ++ (e.1 ++ [','] ++ e.2)) :
    readEdges (render es ++ (e.1 ++ [','] ++ e.2)) = some (es.map (·.1) ++ [e]) := by
  unfold readEdges
  have hq : '"' ∉ render es ++ (e.1 ++ [','] ++ e.2) := by
    intro hq
    simp only [List.mem_append, List.mem_cons, List.not_mem_nil, or_false] at hq
    rcases hq with hq | (hq | hq) | hq
    · exact quote_not_in_render es h hq
    · exact (h1 _ hq).2.2.2 rfl
    · exact absurd hq (by decide)
    · exact (h2 _ hq).2.2.2 rfl
  rw [if_neg hq, hbom, records_render es _ h, records_last _ (record_noterm e h1 h2) (by simp), List.map_append]
  apply allSome_append
  · exact edges_of_records es h
  · have := edgeOfRecord_line e.1 e.2 (fun hc => (h1 _ hc).1 rfl) (fun hc => (h2 _ hc).1 rfl)
    simp only [List.map_cons, List.map_nil, this, allSome, Option.map_some]

/-- a byte-order mark in front of the text is not part of the first name -/
theorem readEdges_bom (t : List Char) (h : dropBom t = t) : readEdges (Char.ofNat 0xFEFF :: t) = readEdges t := by
  unfold readEdges
  have e : dropBom (Char.ofNat 0xFEFF :: t) = t := by simp [dropBom]
  have q : ('"' ∈ Char.ofNat 0xFEFF :: t) ↔ '"' ∈ t := by
    simp only [List.mem_cons, or_iff_right_iff_imp]
    intro hc; exact absurd hc (by decide)
  rw [e, h]
  by_cases hq : '"' ∈ t
  · rw [if_pos hq, if_pos (q.mpr hq)]
  · rw [if_neg hq, if_neg (fun x => hq (q.mp x))]

/-- the text does not start with a byte-order mark when its first name does not -/
theorem dropBom_id (t : List Char) (h : t.head? ≠ some (Char.ofNat 0xFEFF)) : dropBom t = t := by
  cases t with
  | nil => rfl
  | cons c cs =>
    simp only [List.head?_cons, ne_eq, Option.some.injEq] at h
    simp [dropBom, h]

/-- a record with one field, or with three, is not read as an edge (the tools stop there) -/
theorem edgeOfRecord_none : edgeOfRecord "abc".toList = none ∧ edgeOfRecord "a,b,c".toList = none ∧
    edgeOfRecord " ".toList = none := by decide

/-- non-vacuity: a Windows file, a blank line, an old Mac line ending, no terminator at the end -/
example : readEdges "a,b\r\nb,c\n\n c ,d\rd,a".toList =
    some [("a".toList, "b".toList), ("b".toList, "c".toList), (" c ".toList, "d".toList), ("d".toList, "a".toList)] := by
  decide

end Rsbdd.C16
