/-
C14 at the level of the bytes of the diagram export.  `Model/DotText.lean` models the text the `dot` crate
writes (one statement per line, labels through `char::escape_default`) and defines a reader for it;
`Model/DotBdd.lean` gives the graph of `Model/Dot.lean` the ids and labels of `src/bdd_io.rs`.

* `unescape_escape`: the label escaping is invertible — for every string, whatever characters it contains.
* `dot_read_back`: a graph whose ids are ids (letters, digits, underscore: `dot::Id::new` accepts nothing else) is
  read back from its text exactly: same name, same node list with labels, same edge list.
* `bdd_dot_read_back`: in particular the text `rsbdd -d` writes for a diagram, under any filter, any variable
  names and any allocation addresses, is read back as the labelled graph of `Dot.bddGraph` — the object the
  theorems of Thm/C14 speak about — and `nodeIdText_injective`: distinct nodes have distinct ids in the text.

The real export is compared byte for byte with `bddDotText` on every case of the C14 run (recorded tie
`dot-model.identical / .differs`), and read by `readDot` as well as by the harness (the two must agree).
-/
import Rsbdd.Proofs.DotRead6
import Rsbdd.Model.DotBdd
import Rsbdd.Thm.C14T
namespace Rsbdd.C14
open DotText Dot

theorem unescape_escape (s : List Char) : unescape (escape s) = some s := DotText.unescape_escape s

theorem dot_read_back (g : TextGraph) (ok : GraphOk g) : readDot (render g) = some g := read_render g ok

theorem hexDigit_idChar : ∀ d : Fin 16, idChar (hexDigit d.val) = true := by decide

theorem hexDigits_idOk : ∀ (fuel n : Nat), IdOk (hexDigits fuel n)
  | 0, _ => by intro c hc; simp [hexDigits] at hc
  | fuel + 1, n => by
    intro c hc
    unfold hexDigits at hc
    split at hc
    · rename_i hn
      simp only [List.mem_singleton] at hc
      subst hc
      exact hexDigit_idChar ⟨n, hn⟩
    · simp only [List.mem_append, List.mem_singleton] at hc
      rcases hc with hc | hc
      · exact hexDigits_idOk fuel (n / 16) c hc
      · subst hc
        exact hexDigit_idChar ⟨n % 16, Nat.mod_lt _ (by decide)⟩

theorem nodeIdText_idOk (addr : Nat → Nat) (i : NodeId) : IdOk (nodeIdText addr i) := by
  cases i with
  | true_ => intro c hc; simp [nodeIdText] at hc; rcases hc with rfl | rfl | rfl | rfl | rfl | rfl <;> decide
  | false_ => intro c hc; simp [nodeIdText] at hc; rcases hc with rfl | rfl | rfl | rfl | rfl | rfl | rfl <;> decide
  | «at» p =>
    intro c hc
    simp only [nodeIdText, List.mem_append, List.mem_cons, List.not_mem_nil, or_false] at hc
    rcases hc with (rfl | rfl | rfl | rfl) | hc
    · decide
    · decide
    · decide
    · decide
    · exact hexDigits_idOk _ _ c hc

/-- C14, text level: the DOT text written for a diagram is read back as the labelled graph of the export -/
theorem bdd_dot_read_back (names : Nat → List Char) (addr : Nat → Nat) (root : PBDD) (flt : BDD.Filter) :
    readDot (bddDotText names addr root flt) = some (bddTextGraph names addr (bddGraph root flt)) := by
  apply read_render
  refine ⟨?_, ?_, ?_⟩
  · intro c hc
    simp [bddTextGraph] at hc
    rcases hc with rfl | rfl | rfl | rfl | rfl | rfl | rfl | rfl | rfl <;> decide
  · intro n hn
    simp only [bddTextGraph, List.mem_map] at hn
    obtain ⟨m, _, rfl⟩ := hn
    exact nodeIdText_idOk addr m.1
  · intro e he
    simp only [bddTextGraph, List.mem_map] at he
    obtain ⟨m, _, rfl⟩ := he
    exact ⟨nodeIdText_idOk addr m.1, nodeIdText_idOk addr m.2.2⟩

theorem toHex_injective {a b : Nat} (h : toHex a = toHex b) : a = b := by
  have h1 := readHex_toHex a []
  have h2 := readHex_toHex b []
  rw [h] at h1
  rw [h1] at h2
  simpa using h2

/-- distinct nodes (distinct allocations, or the two leaves) have distinct ids in the text -/
theorem nodeIdText_injective (addr : Nat → Nat) (hinj : ∀ p q, addr p = addr q → p = q) (i j : NodeId)
    (h : nodeIdText addr i = nodeIdText addr j) : i = j := by
  cases i <;> cases j <;> simp only [nodeIdText] at h
  all_goals first
    | rfl
    | (exfalso; revert h; decide)
    | skip
  · exfalso
    have : ('t' : Char) = '0' := by
      have := congrArg (fun l => l[2]?) h
      simpa using this
    exact absurd this (by decide)
  · exfalso
    have : ('f' : Char) = '0' := by
      have := congrArg (fun l => l[2]?) h
      simpa using this
    exact absurd this (by decide)
  · exfalso
    have : ('0' : Char) = 't' := by
      have := congrArg (fun l => l[2]?) h
      simpa using this
    exact absurd this (by decide)
  · exfalso
    have : ('0' : Char) = 'f' := by
      have := congrArg (fun l => l[2]?) h
      simpa using this
    exact absurd this (by decide)
  · rename_i p q
    have := List.append_cancel_left h
    rw [hinj p q (toHex_injective this)]

-- non-vacuity: a label with a quote, a backslash, a tab and a non-ASCII letter; an edge; a hexadecimal id
example : readDot (render ⟨"bdd_graph".toList,
      [("n_0x55aa".toList, "c'".toList), ("n_true".toList, "true".toList), ("n_1".toList, "é\"\\ a\tb".toList)],
      [("n_0x55aa".toList, "n_true".toList, "T".toList)]⟩) =
    some ⟨"bdd_graph".toList,
      [("n_0x55aa".toList, "c'".toList), ("n_true".toList, "true".toList), ("n_1".toList, "é\"\\ a\tb".toList)],
      [("n_0x55aa".toList, "n_true".toList, "T".toList)]⟩ := by
  decide +kernel

end Rsbdd.C14
