/-
C14, second sentence: the parse-tree export read back as a term is the syntax tree (`tree_roundtrip`).
-/
import Rsbdd.Thm.C14
import Rsbdd.Proofs.ParseNoLeaf
namespace Rsbdd.C14
open Dot

/-! ### reading the parse-tree export back as a term -/

/-- what a node's label says: the constructor with its operator / variables / constant, not the sub-terms -/
inductive Head where
  | false_ | true_ | var (v : Nat) | not | quant (q : Quant) (vs : List Nat)
  | cntConst (op : CntOp) (n : Nat) | cntVar (op : CntOp) | fix (v : Nat) (i : Bool)
  | ite | bin (op : BinOp) | subtree | ref (n : String)

def headOf : Formula → Head
  | .false_ => .false_
  | .true_ => .true_
  | .var v => .var v
  | .not _ => .not
  | .quant q vs _ => .quant q vs
  | .cntConst op _ n => .cntConst op n
  | .cntVar op _ _ => .cntVar op
  | .fix v i _ => .fix v i
  | .ite _ _ _ => .ite
  | .bin op _ _ => .bin op
  | .subtree _ => .subtree
  | .ref n => .ref n

/-- the exported graph as a reader sees it: a label per node index, labelled edges -/
structure HGraph where
  heads : List Head
  edges : List (Nat × ELabel × Nat)

def toH (g : TreeGraph) : HGraph := ⟨g.nodes.map headOf, g.edges⟩

/-- the target of the edge leaving `i` with label `lab` -/
def childOf (G : HGraph) (i : Nat) (lab : ELabel) : Option Nat :=
  (G.edges.find? (fun e => e.1 == i && decide (e.2.1 = lab))).map (·.2.2)

mutual
/-- the term below node `i` -/
def rebuild (G : HGraph) : Nat → Nat → Option Formula
  | 0, _ => none
  | fuel + 1, i =>
    match G.heads[i]? with
    | none => none
    | some .false_ => some .false_
    | some .true_ => some .true_
    | some (.var v) => some (.var v)
    | some (.ref n) => some (.ref n)
    | some .subtree => none
    | some .not =>
      match childOf G i .plain with
      | some c => (rebuild G fuel c).map .not
      | none => none
    | some (.quant q vs) =>
      match childOf G i .plain with
      | some c => (rebuild G fuel c).map (.quant q vs)
      | none => none
    | some (.fix v init) =>
      match childOf G i .plain with
      | some c => (rebuild G fuel c).map (.fix v init)
      | none => none
    | some (.bin op) =>
      match childOf G i .l, childOf G i .r with
      | some a, some b =>
        match rebuild G fuel a, rebuild G fuel b with
        | some l, some r => some (.bin op l r)
        | _, _ => none
      | _, _ => none
    | some .ite =>
      match childOf G i .if_, childOf G i .then_, childOf G i .else_ with
      | some a, some b, some c =>
        match rebuild G fuel a, rebuild G fuel b, rebuild G fuel c with
        | some x, some y, some z => some (.ite x y z)
        | _, _, _ => none
      | _, _, _ => none
    | some (.cntConst op n) => (rebuildL G fuel i ELabel.idx 0).map (fun fs => .cntConst op fs n)
    | some (.cntVar op) =>
      match rebuildL G fuel i ELabel.lidx 0, rebuildL G fuel i ELabel.ridx 0 with
      | some l, some r => some (.cntVar op l r)
      | _, _ => none
/-- the operands `mk j`, `mk (j+1)`, … of node `i`, up to the first missing label -/
def rebuildL (G : HGraph) : Nat → Nat → (Nat → ELabel) → Nat → Option (List Formula)
  | 0, _, _, _ => none
  | fuel + 1, i, mk, j =>
    match childOf G i (mk j) with
    | none => some []
    | some c =>
      match rebuild G fuel c, rebuildL G fuel i mk (j + 1) with
      | some f, some fs => some (f :: fs)
      | _, _ => none
end


mutual
theorem feq_eq : ∀ (a b : Formula), feq a b = true → a = b
  | .false_, b, h => by cases b <;> simp [feq] at h ⊢
  | .true_, b, h => by cases b <;> simp [feq] at h ⊢
  | .var v, b, h => by cases b <;> simp [feq] at h ⊢; exact h
  | .ref n, b, h => by cases b <;> simp [feq] at h ⊢; exact h
  | .subtree x, b, h => by cases b <;> simp [feq] at h ⊢; exact h
  | .not f, b, h => by
    cases b <;> simp [feq] at h ⊢
    exact feq_eq f _ h
  | .quant q vs f, b, h => by
    cases b <;> simp [feq] at h ⊢
    exact ⟨h.1.1, h.1.2, feq_eq f _ h.2⟩
  | .fix v i f, b, h => by
    cases b <;> simp [feq] at h ⊢
    exact ⟨h.1.1, h.1.2, feq_eq f _ h.2⟩
  | .bin op l r, b, h => by
    cases b <;> simp [feq] at h ⊢
    exact ⟨h.1.1, feq_eq l _ h.1.2, feq_eq r _ h.2⟩
  | .ite c t e, b, h => by
    cases b <;> simp [feq] at h ⊢
    exact ⟨feq_eq c _ h.1.1, feq_eq t _ h.1.2, feq_eq e _ h.2⟩
  | .cntConst op fs n, b, h => by
    cases b <;> simp [feq] at h ⊢
    exact ⟨h.1.1, feqL_eq fs _ h.2, h.1.2⟩
  | .cntVar op l r, b, h => by
    cases b <;> simp [feq] at h ⊢
    exact ⟨h.1.1, feqL_eq l _ h.1.2, feqL_eq r _ h.2⟩
theorem feqL_eq : ∀ (as bs : List Formula), feqL as bs = true → as = bs
  | [], bs, h => by cases bs <;> simp [feqL] at h ⊢
  | a :: as, bs, h => by
    cases bs with
    | nil => simp [feqL] at h
    | cons b bs =>
      simp only [feqL, Bool.and_eq_true] at h
      rw [feq_eq a b h.1, feqL_eq as bs h.2]
end

theorem find?_unique {α : Type} {l : List α} {P : α → Bool} {x : α} (hx : x ∈ l) (hP : P x = true)
    (hu : ∀ y ∈ l, P y = true → y = x) : l.find? P = some x := by
  cases h : l.find? P with
  | none => have := List.find?_eq_none.mp h x hx; simp [hP] at this
  | some y => rw [hu y (List.mem_of_find?_eq_some h) (List.find?_some h)]

theorem mapM_some_mem {α β : Type} (f : α → Option β) : ∀ (xs : List α) (ys : List β), xs.mapM f = some ys →
    (∀ y ∈ ys, ∃ x ∈ xs, f x = some y) ∧ (∀ x ∈ xs, ∃ y ∈ ys, f x = some y)
  | [], ys, h => by simp at h; subst h; simp
  | x :: xs, ys, h => by
    simp only [List.mapM_cons] at h
    cases hfx : f x with
    | none => simp [hfx] at h
    | some b =>
      cases hr : xs.mapM f with
      | none => simp [hfx, hr] at h
      | some bs =>
        simp [hfx, hr] at h
        subst h
        obtain ⟨i1, i2⟩ := mapM_some_mem f xs bs hr
        constructor
        · intro y hy
          rcases List.mem_cons.mp hy with rfl | hy
          · exact ⟨x, by simp, hfx⟩
          · obtain ⟨x', hx', e⟩ := i1 y hy; exact ⟨x', by simp [hx'], e⟩
        · intro x' hx'
          rcases List.mem_cons.mp hx' with rfl | hx'
          · exact ⟨b, by simp, hfx⟩
          · obtain ⟨y, hy, e⟩ := i2 x' hx'; exact ⟨y, by simp [hy], e⟩


/-- the edges of the export: node `i` contributes exactly the edges computed for it -/
theorem parseTree_edges {f : Formula} {g : TreeGraph} (h : parseTree f = some g) :
    g.nodes = uniqueF (treeNodes f) ∧
    ∀ e, e ∈ g.edges ↔ ∃ i n es, (uniqueF (treeNodes f))[i]? = some n ∧
      treeEdgesOf (uniqueF (treeNodes f)) i n = some es ∧ e ∈ es := by
  unfold parseTree at h
  simp only [Option.map_eq_some_iff] at h
  obtain ⟨groups, hg, rfl⟩ := h
  refine ⟨rfl, fun e => ?_⟩
  obtain ⟨m1, m2⟩ := mapM_some_mem _ _ _ hg
  simp only [List.mem_flatten]
  constructor
  · rintro ⟨grp, hgrp, he⟩
    obtain ⟨⟨n, i⟩, hni, hf⟩ := m1 grp hgrp
    exact ⟨i, n, grp, List.mem_zipIdx_iff_getElem?.mp hni, hf, he⟩
  · rintro ⟨i, n, es, hn, hf, he⟩
    obtain ⟨grp, hgrp, hf'⟩ := m2 (n, i) (List.mem_zipIdx_iff_getElem?.mpr hn)
    simp only at hf'
    rw [hf] at hf'
    cases hf'
    exact ⟨es, hgrp, he⟩

/-- a successful `position` lookup points at the term itself -/
theorem position_spec {nodes : List Formula} {c : Formula} {j : Nat} (h : position nodes c = some j) :
    nodes[j]? = some c := by
  unfold position at h
  obtain ⟨hj, hp, _⟩ := List.findIdx?_eq_some_iff_getElem.mp h
  rw [List.getElem?_eq_getElem hj, feq_eq _ _ hp]

/-- the edges computed for a counting list: operand `j` gets label `mk j` -/
theorem listEdges_spec {nodes : List Formula} {i : Nat} {mk : Nat → ELabel} {fs : List Formula}
    {es : List (Nat × ELabel × Nat)}
    (h : (fs.zipIdx).mapM (fun (x : Formula × Nat) => (position nodes x.1).map (fun a => (i, mk x.2, a))) = some es) :
    ∀ e, e ∈ es ↔ ∃ j c p, fs[j]? = some c ∧ position nodes c = some p ∧ e = (i, mk j, p) := by
  obtain ⟨m1, m2⟩ := mapM_some_mem _ _ _ h
  intro e
  constructor
  · intro he
    obtain ⟨⟨c, j⟩, hcj, hf⟩ := m1 e he
    simp only [Option.map_eq_some_iff] at hf
    obtain ⟨p, hp, rfl⟩ := hf
    exact ⟨j, c, p, List.mem_zipIdx_iff_getElem?.mp hcj, hp, rfl⟩
  · rintro ⟨j, c, p, hc, hp, rfl⟩
    obtain ⟨y, hy, hf⟩ := m2 (c, j) (List.mem_zipIdx_iff_getElem?.mpr hc)
    simp only [hp, Option.map_some, Option.some.injEq] at hf
    rw [hf]; exact hy


theorem src_spec {nodes : List Formula} {i : Nat} : ∀ {n : Formula} {es : List (Nat × ELabel × Nat)},
    treeEdgesOf nodes i n = some es → ∀ e ∈ es, e.1 = i := by
  intro n es h e he
  cases n with
  | bin op l r =>
    simp only [treeEdgesOf] at h
    cases h1 : position nodes l <;> cases h2 : position nodes r <;> simp [h1, h2] at h
    subst h; simp at he; rcases he with rfl | rfl <;> rfl
  | quant q vs g =>
    simp only [treeEdgesOf, Option.map_eq_some_iff] at h
    obtain ⟨a, _, rfl⟩ := h; simp at he; subst he; rfl
  | not g =>
    simp only [treeEdgesOf, Option.map_eq_some_iff] at h
    obtain ⟨a, _, rfl⟩ := h; simp at he; subst he; rfl
  | fix v init g =>
    simp only [treeEdgesOf, Option.map_eq_some_iff] at h
    obtain ⟨a, _, rfl⟩ := h; simp at he; subst he; rfl
  | cntConst op fs k =>
    simp only [treeEdgesOf] at h
    obtain ⟨j, c, p, _, _, rfl⟩ := (listEdges_spec (mk := ELabel.idx) h e).mp he
    rfl
  | cntVar op a b =>
    simp only [treeEdgesOf] at h
    cases h1 : (a.zipIdx).mapM (fun (x : Formula × Nat) => (position nodes x.1).map (fun p => (i, ELabel.lidx x.2, p))) with
    | none => simp [h1] at h
    | some xs =>
      cases h2 : (b.zipIdx).mapM (fun (x : Formula × Nat) => (position nodes x.1).map (fun p => (i, ELabel.ridx x.2, p))) with
      | none => simp [h1, h2] at h
      | some ys =>
        simp [h1, h2] at h
        subst h
        rcases List.mem_append.mp he with he | he
        · obtain ⟨j, c, p, _, _, rfl⟩ := (listEdges_spec (mk := ELabel.lidx) h1 e).mp he; rfl
        · obtain ⟨j, c, p, _, _, rfl⟩ := (listEdges_spec (mk := ELabel.ridx) h2 e).mp he; rfl
  | ite c t e' =>
    simp only [treeEdgesOf] at h
    cases h1 : position nodes c <;> cases h2 : position nodes t <;> cases h3 : position nodes e' <;> simp [h1, h2, h3] at h
    subst h; simp at he; rcases he with rfl | rfl | rfl <;> rfl
  | false_ => simp [treeEdgesOf] at h; subst h; simp at he
  | true_ => simp [treeEdgesOf] at h; subst h; simp at he
  | var v => simp [treeEdgesOf] at h; subst h; simp at he
  | ref v => simp [treeEdgesOf] at h; subst h; simp at he
  | subtree v => simp [treeEdgesOf] at h; subst h; simp at he

/-- what is known about an exported graph -/
structure Exported (N : List Formula) (G : HGraph) : Prop where
  heads : G.heads = N.map headOf
  edges : ∀ e, e ∈ G.edges ↔ ∃ i n es, N[i]? = some n ∧ treeEdgesOf N i n = some es ∧ e ∈ es

/-- the edge leaving node `i` with a given label, when the edges computed for `i` have exactly one such -/
theorem childOf_some {N : List Formula} {G : HGraph} (hx : Exported N G) {i j : Nat} {n : Formula}
    {es : List (Nat × ELabel × Nat)} {lab : ELabel} (hn : N[i]? = some n) (hes : treeEdgesOf N i n = some es)
    (hmem : (i, lab, j) ∈ es) (huniq : ∀ e ∈ es, e.2.1 = lab → e = (i, lab, j)) :
    childOf G i lab = some j := by
  unfold childOf
  rw [find?_unique (x := (i, lab, j))]
  · rfl
  · exact (hx.edges _).mpr ⟨i, n, es, hn, hes, hmem⟩
  · simp
  · intro y hy hP
    simp only [Bool.and_eq_true, beq_iff_eq, decide_eq_true_eq] at hP
    obtain ⟨i', n', es', hn', hes', hy'⟩ := (hx.edges y).mp hy
    have hsrc := src_spec hes' y hy'
    have hi : i' = i := hsrc.symm.trans hP.1
    subst hi
    rw [hn] at hn'; cases hn'
    rw [hes] at hes'; cases hes'
    exact huniq y hy' hP.2

theorem childOf_none {N : List Formula} {G : HGraph} (hx : Exported N G) {i : Nat} {n : Formula}
    {es : List (Nat × ELabel × Nat)} {lab : ELabel} (hn : N[i]? = some n) (hes : treeEdgesOf N i n = some es)
    (hno : ∀ e ∈ es, e.2.1 ≠ lab) : childOf G i lab = none := by
  unfold childOf
  cases h : G.edges.find? (fun e => e.1 == i && decide (e.2.1 = lab)) with
  | none => rfl
  | some y =>
    exfalso
    have hP := List.find?_some h
    have hy := List.mem_of_find?_eq_some h
    simp only [Bool.and_eq_true, beq_iff_eq, decide_eq_true_eq] at hP
    obtain ⟨i', n', es', hn', hes', hy'⟩ := (hx.edges y).mp hy
    have hi : i' = i := (src_spec hes' y hy').symm.trans hP.1
    subst hi
    rw [hn] at hn'; cases hn'
    rw [hes] at hes'; cases hes'
    exact hno y hy' hP.2


theorem depth_pos' : ∀ f : Formula, 1 ≤ Formula.depth f := by
  intro f; cases f <;> simp [Formula.depth]
theorem depthL_pos' : ∀ fs : List Formula, 1 ≤ Formula.depthL fs := by
  intro fs; cases fs <;> simp [Formula.depthL]

theorem depthL_drop {fs : List Formula} {j : Nat} {c : Formula} (h : fs[j]? = some c) :
    Formula.depthL (fs.drop j) = max (Formula.depth c) (Formula.depthL (fs.drop (j + 1))) + 1 := by
  have hj : j < fs.length := by
    rcases Nat.lt_or_ge j fs.length with h' | h'
    · exact h'
    · rw [List.getElem?_eq_none h'] at h; cases h
  have e : fs.drop j = c :: fs.drop (j + 1) := by
    rw [List.drop_eq_getElem_cons hj]
    rw [List.getElem?_eq_getElem hj] at h
    cases h; rfl
  rw [e]; simp [Formula.depthL]

theorem depthL_le_of_mem : ∀ {fs : List Formula} {c : Formula}, c ∈ fs → Formula.depth c < Formula.depthL fs
  | f :: fs, c, h => by
    simp only [Formula.depthL]
    rcases List.mem_cons.mp h with rfl | h
    · omega
    · have := depthL_le_of_mem h; omega

/-- the main induction: with enough fuel, node `i` reads back as the term stored at `i`, and the operand
lists read back as the operand lists -/
theorem rebuild_spec {N : List Formula} {G : HGraph} (hx : Exported N G)
    (htot : ∀ i n, N[i]? = some n → ∃ es, treeEdgesOf N i n = some es)
    (hns : ∀ n ∈ N, ∀ b, n ≠ .subtree b) : ∀ fuel : Nat,
    (∀ i n, N[i]? = some n → Formula.depth n ≤ fuel → rebuild G fuel i = some n) ∧
    (∀ i (mk : Nat → ELabel) (fs : List Formula) (j : Nat),
      (∀ j' c, fs[j']? = some c → ∃ p, childOf G i (mk j') = some p ∧ N[p]? = some c) →
      childOf G i (mk fs.length) = none → j ≤ fs.length → Formula.depthL (fs.drop j) ≤ fuel →
      rebuildL G fuel i mk j = some (fs.drop j)) := by
  intro fuel
  induction fuel with
  | zero =>
    constructor
    · intro i n _ hd; have := C14.depth_pos' n; omega
    · intro i mk fs j _ _ _ hd; have := C14.depthL_pos' (fs.drop j); omega
  | succ fuel ih =>
    obtain ⟨ihP, ihL⟩ := ih
    constructor
    · intro i n hn hd
      have hhead : G.heads[i]? = some (headOf n) := by rw [hx.heads]; simp [hn]
      obtain ⟨es, hes⟩ := htot i n hn
      cases n with
      | false_ => simp [rebuild, hhead, headOf]
      | true_ => simp [rebuild, hhead, headOf]
      | var v => simp [rebuild, hhead, headOf]
      | ref v => simp [rebuild, hhead, headOf]
      | subtree b => exact absurd rfl (hns _ (List.mem_of_getElem? hn) b)
      | not g =>
        simp only [Formula.depth] at hd
        simp only [treeEdgesOf, Option.map_eq_some_iff] at hes
        obtain ⟨a, ha, rfl⟩ := hes
        have hc := childOf_some hx hn (es := [(i, .plain, a)]) (by simp [treeEdgesOf, ha]) (lab := .plain) (j := a) (by simp)
          (by intro e he _; simpa using he)
        simp [rebuild, hhead, headOf, hc, ihP a g (position_spec ha) (by omega)]
      | quant q vs g =>
        simp only [Formula.depth] at hd
        simp only [treeEdgesOf, Option.map_eq_some_iff] at hes
        obtain ⟨a, ha, rfl⟩ := hes
        have hc := childOf_some hx hn (es := [(i, .plain, a)]) (by simp [treeEdgesOf, ha]) (lab := .plain) (j := a) (by simp)
          (by intro e he _; simpa using he)
        simp [rebuild, hhead, headOf, hc, ihP a g (position_spec ha) (by omega)]
      | fix v init g =>
        simp only [Formula.depth] at hd
        simp only [treeEdgesOf, Option.map_eq_some_iff] at hes
        obtain ⟨a, ha, rfl⟩ := hes
        have hc := childOf_some hx hn (es := [(i, .plain, a)]) (by simp [treeEdgesOf, ha]) (lab := .plain) (j := a) (by simp)
          (by intro e he _; simpa using he)
        simp [rebuild, hhead, headOf, hc, ihP a g (position_spec ha) (by omega)]
      | bin op l r =>
        simp only [Formula.depth] at hd
        simp only [treeEdgesOf] at hes
        cases h1 : position N l with
        | none => simp [h1] at hes
        | some a =>
          cases h2 : position N r with
          | none => simp [h1, h2] at hes
          | some b =>
            have hes' : treeEdgesOf N i (.bin op l r) = some [(i, .l, a), (i, .r, b)] := by simp [treeEdgesOf, h1, h2]
            have hc1 := childOf_some hx hn hes' (lab := .l) (j := a) (by simp)
              (by intro e he hl; simp at he; rcases he with rfl | rfl; rfl; simp at hl)
            have hc2 := childOf_some hx hn hes' (lab := .r) (j := b) (by simp)
              (by intro e he hl; simp at he; rcases he with rfl | rfl; simp at hl; rfl)
            simp [rebuild, hhead, headOf, hc1, hc2, ihP a l (position_spec h1) (by omega), ihP b r (position_spec h2) (by omega)]
      | ite c t e' =>
        simp only [Formula.depth] at hd
        simp only [treeEdgesOf] at hes
        cases h1 : position N c with
        | none => simp [h1] at hes
        | some a =>
          cases h2 : position N t with
          | none => simp [h1, h2] at hes
          | some b =>
            cases h3 : position N e' with
            | none => simp [h1, h2, h3] at hes
            | some d =>
              have hes' : treeEdgesOf N i (.ite c t e') = some [(i, .if_, a), (i, .then_, b), (i, .else_, d)] := by
                simp [treeEdgesOf, h1, h2, h3]
              have hc1 := childOf_some hx hn hes' (lab := .if_) (j := a) (by simp)
                (by intro e he hl; simp at he; rcases he with rfl | rfl | rfl; rfl; simp at hl; simp at hl)
              have hc2 := childOf_some hx hn hes' (lab := .then_) (j := b) (by simp)
                (by intro e he hl; simp at he; rcases he with rfl | rfl | rfl; simp at hl; rfl; simp at hl)
              have hc3 := childOf_some hx hn hes' (lab := .else_) (j := d) (by simp)
                (by intro e he hl; simp at he; rcases he with rfl | rfl | rfl; simp at hl; simp at hl; rfl)
              simp [rebuild, hhead, headOf, hc1, hc2, hc3, ihP a c (position_spec h1) (by omega),
                ihP b t (position_spec h2) (by omega), ihP d e' (position_spec h3) (by omega)]
      | cntConst op fs k =>
        simp only [Formula.depth] at hd
        have hes0 := hes
        simp only [treeEdgesOf] at hes
        have hspec := listEdges_spec (mk := ELabel.idx) hes
        have hL := ihL i ELabel.idx fs 0
          (by
            intro j' c hc
            -- the position lookup for operand j' succeeded
            obtain ⟨y, hy, hf⟩ := (mapM_some_mem _ _ _ hes).2 (c, j') (List.mem_zipIdx_iff_getElem?.mpr hc)
            simp only [Option.map_eq_some_iff] at hf
            obtain ⟨p, hp, rfl⟩ := hf
            refine ⟨p, ?_, position_spec hp⟩
            apply childOf_some hx hn hes0 ((hspec _).mpr ⟨j', c, p, hc, hp, rfl⟩)
            intro e he hl
            obtain ⟨j2, c2, p2, hc2, hp2, rfl⟩ := (hspec e).mp he
            simp only [ELabel.idx.injEq] at hl
            subst hl
            rw [hc] at hc2; cases hc2
            rw [hp] at hp2; cases hp2; rfl)
          (by
            apply childOf_none hx hn hes0
            intro e he hl
            obtain ⟨j2, c2, p2, hc2, _, rfl⟩ := (hspec e).mp he
            simp only [ELabel.idx.injEq] at hl
            subst hl
            simp at hc2)
          (Nat.zero_le _) (by simpa using (by omega : Formula.depthL fs ≤ fuel))
        simp [rebuild, hhead, headOf, hL]
      | cntVar op a b =>
        simp only [Formula.depth] at hd
        have hes0 := hes
        simp only [treeEdgesOf] at hes
        cases h1 : (a.zipIdx).mapM (fun (x : Formula × Nat) => (position N x.1).map (fun p => (i, ELabel.lidx x.2, p))) with
        | none => simp [h1] at hes
        | some xs =>
          cases h2 : (b.zipIdx).mapM (fun (x : Formula × Nat) => (position N x.1).map (fun p => (i, ELabel.ridx x.2, p))) with
          | none => simp [h1, h2] at hes
          | some ys =>
            simp [h1, h2] at hes
            subst hes
            have hs1 := listEdges_spec (mk := ELabel.lidx) h1
            have hs2 := listEdges_spec (mk := ELabel.ridx) h2
            have hL1 := ihL i ELabel.lidx a 0
              (by
                intro j' c hc
                obtain ⟨y, hy, hf⟩ := (mapM_some_mem _ _ _ h1).2 (c, j') (List.mem_zipIdx_iff_getElem?.mpr hc)
                simp only [Option.map_eq_some_iff] at hf
                obtain ⟨p, hp, rfl⟩ := hf
                refine ⟨p, ?_, position_spec hp⟩
                apply childOf_some hx hn hes0 (List.mem_append_left _ ((hs1 _).mpr ⟨j', c, p, hc, hp, rfl⟩))
                intro e he hl
                rcases List.mem_append.mp he with he | he
                · obtain ⟨j2, c2, p2, hc2, hp2, rfl⟩ := (hs1 e).mp he
                  simp only [ELabel.lidx.injEq] at hl
                  subst hl
                  rw [hc] at hc2; cases hc2
                  rw [hp] at hp2; cases hp2; rfl
                · obtain ⟨j2, c2, p2, _, _, rfl⟩ := (hs2 e).mp he
                  simp at hl)
              (by
                apply childOf_none hx hn hes0
                intro e he hl
                rcases List.mem_append.mp he with he | he
                · obtain ⟨j2, c2, p2, hc2, _, rfl⟩ := (hs1 e).mp he
                  simp only [ELabel.lidx.injEq] at hl
                  subst hl
                  simp at hc2
                · obtain ⟨j2, c2, p2, _, _, rfl⟩ := (hs2 e).mp he
                  simp at hl)
              (Nat.zero_le _) (by simpa using (by omega : Formula.depthL a ≤ fuel))
            have hL2 := ihL i ELabel.ridx b 0
              (by
                intro j' c hc
                obtain ⟨y, hy, hf⟩ := (mapM_some_mem _ _ _ h2).2 (c, j') (List.mem_zipIdx_iff_getElem?.mpr hc)
                simp only [Option.map_eq_some_iff] at hf
                obtain ⟨p, hp, rfl⟩ := hf
                refine ⟨p, ?_, position_spec hp⟩
                apply childOf_some hx hn hes0 (List.mem_append_right _ ((hs2 _).mpr ⟨j', c, p, hc, hp, rfl⟩))
                intro e he hl
                rcases List.mem_append.mp he with he | he
                · obtain ⟨j2, c2, p2, _, _, rfl⟩ := (hs1 e).mp he
                  simp at hl
                · obtain ⟨j2, c2, p2, hc2, hp2, rfl⟩ := (hs2 e).mp he
                  simp only [ELabel.ridx.injEq] at hl
                  subst hl
                  rw [hc] at hc2; cases hc2
                  rw [hp] at hp2; cases hp2; rfl)
              (by
                apply childOf_none hx hn hes0
                intro e he hl
                rcases List.mem_append.mp he with he | he
                · obtain ⟨j2, c2, p2, _, _, rfl⟩ := (hs1 e).mp he
                  simp at hl
                · obtain ⟨j2, c2, p2, hc2, _, rfl⟩ := (hs2 e).mp he
                  simp only [ELabel.ridx.injEq] at hl
                  subst hl
                  simp at hc2)
              (Nat.zero_le _) (by simpa using (by omega : Formula.depthL b ≤ fuel))
            simp [rebuild, hhead, headOf, hL1, hL2]
    · intro i mk fs j hch hend hj hd
      by_cases hlen : j = fs.length
      · subst hlen
        simp [rebuildL, hend]
      · have hj' : j < fs.length := by omega
        have hc : fs[j]? = some fs[j] := List.getElem?_eq_getElem hj'
        obtain ⟨p, hp, hNp⟩ := hch j fs[j] hc
        rw [depthL_drop hc] at hd
        have e : fs.drop j = fs[j] :: fs.drop (j + 1) := List.drop_eq_getElem_cons hj'
        simp only [rebuildL, hp, ihP p fs[j] hNp (by omega), ihL i mk fs (j + 1) hch hend (by omega) (by omega), e]


mutual
theorem noLeaf_treeNodes : ∀ (f : Formula), NoLeaf f → ∀ n ∈ treeNodes f, NoLeaf n
  | .false_, h, n, hn => by simp [treeNodes] at hn; subst hn; exact h
  | .true_, h, n, hn => by simp [treeNodes] at hn; subst hn; exact h
  | .var _, h, n, hn => by simp [treeNodes] at hn; subst hn; exact h
  | .ref _, h, n, hn => by simp [treeNodes] at hn; subst hn; exact h
  | .subtree _, h, n, hn => by simp [NoLeaf] at h
  | .not g, h, n, hn => by
    simp only [treeNodes, List.mem_append, List.mem_cons, List.not_mem_nil, or_false] at hn
    rcases hn with hn | rfl
    · exact noLeaf_treeNodes g (by simpa [NoLeaf] using h) n hn
    · exact h
  | .quant q vs g, h, n, hn => by
    simp only [treeNodes, List.mem_append, List.mem_cons, List.not_mem_nil, or_false] at hn
    rcases hn with hn | rfl
    · exact noLeaf_treeNodes g (by simpa [NoLeaf] using h) n hn
    · exact h
  | .fix v i g, h, n, hn => by
    simp only [treeNodes, List.mem_append, List.mem_cons, List.not_mem_nil, or_false] at hn
    rcases hn with hn | rfl
    · exact noLeaf_treeNodes g (by simpa [NoLeaf] using h) n hn
    · exact h
  | .bin op l r, h, n, hn => by
    simp only [treeNodes, List.mem_append, List.mem_cons, List.not_mem_nil, or_false] at hn
    simp only [NoLeaf] at h
    rcases hn with (hn | hn) | rfl
    · exact noLeaf_treeNodes l h.1 n hn
    · exact noLeaf_treeNodes r h.2 n hn
    · simp only [NoLeaf]; exact h
  | .ite c t e, h, n, hn => by
    simp only [treeNodes, List.mem_append, List.mem_cons] at hn
    simp only [NoLeaf] at h
    rcases hn with rfl | (hn | hn) | hn
    · simp only [NoLeaf]; exact h
    · exact noLeaf_treeNodes c h.1 n hn
    · exact noLeaf_treeNodes t h.2.1 n hn
    · exact noLeaf_treeNodes e h.2.2 n hn
  | .cntConst op fs k, h, n, hn => by
    simp only [treeNodes, List.mem_cons] at hn
    rcases hn with rfl | hn
    · exact h
    · exact noLeaf_treeNodesL fs (by simpa [NoLeaf] using h) n hn
  | .cntVar op a b, h, n, hn => by
    simp only [treeNodes, List.mem_cons, List.mem_append] at hn
    simp only [NoLeaf] at h
    rcases hn with rfl | hn | hn
    · simp only [NoLeaf]; exact h
    · exact noLeaf_treeNodesL a h.1 n hn
    · exact noLeaf_treeNodesL b h.2 n hn
theorem noLeaf_treeNodesL : ∀ (fs : List Formula), NoLeafL fs → ∀ n ∈ treeNodesL fs, NoLeaf n
  | [], _, n, hn => by simp [treeNodesL] at hn
  | f :: fs, h, n, hn => by
    simp only [treeNodesL, List.mem_append] at hn
    simp only [NoLeafL] at h
    rcases hn with hn | hn
    · exact noLeaf_treeNodes f h.1 n hn
    · exact noLeaf_treeNodesL fs h.2 n hn
end

/-- C14, second sentence: the parse-tree export, read back from its labels and edges alone (`rebuild`:
identical sub-terms are one shared node), is the syntax tree — at every node, in particular at the node
of the whole formula.  For parser output (no diagram leaves; their label does not say which diagram). -/
theorem tree_roundtrip (f : Formula) (hnl : NoLeaf f) :
    ∃ g : TreeGraph, parseTree f = some g ∧
      (∀ (i : Nat) (n : Formula), g.nodes[i]? = some n → rebuild (toH g) (Formula.depth n) i = some n) ∧
      (∃ i : Nat, g.nodes[i]? = some f) := by
  have htotal := parseTree_total f
  cases hg : parseTree f with
  | none => simp [hg] at htotal
  | some g =>
    obtain ⟨hnodes, hedges⟩ := parseTree_edges hg
    have hx : Exported (uniqueF (treeNodes f)) (toH g) := ⟨by simp [toH, hnodes], by simpa [toH] using hedges⟩
    have htot : ∀ i n, (uniqueF (treeNodes f))[i]? = some n → ∃ es, treeEdgesOf (uniqueF (treeNodes f)) i n = some es := by
      intro i n hn
      unfold parseTree at hg
      simp only [Option.map_eq_some_iff] at hg
      obtain ⟨groups, hgr, _⟩ := hg
      obtain ⟨grp, _, hf⟩ := (mapM_some_mem _ _ _ hgr).2 (n, i) (List.mem_zipIdx_iff_getElem?.mpr hn)
      exact ⟨grp, hf⟩
    have hns : ∀ n ∈ uniqueF (treeNodes f), ∀ b, n ≠ .subtree b := by
      intro n hn b e
      have hn' : n ∈ treeNodes f := by
        have := (uniqueF_foldl (treeNodes f) []).1 n hn
        simpa using this
      have := noLeaf_treeNodes f hnl n hn'
      rw [e] at this; simp [NoLeaf] at this
    refine ⟨g, rfl, ?_, ?_⟩
    · intro i n hn
      rw [hnodes] at hn
      exact (rebuild_spec hx htot hns (Formula.depth n)).1 i n hn (Nat.le_refl _)
    · rw [hnodes]
      obtain ⟨y, hy, hfe⟩ := (uniqueF_foldl (treeNodes f) []).2 f (Or.inr (self_mem_treeNodes f))
      have := feq_eq y f hfe
      subst this
      have hy' : y ∈ uniqueF (treeNodes y) := hy
      obtain ⟨i, hi, he⟩ := List.mem_iff_getElem.mp hy'
      exact ⟨i, by rw [List.getElem?_eq_getElem hi, he]⟩

end Rsbdd.C14
