/-
C01, closed form: for every formula whose fixed-point bodies are monotone the evaluator *returns*
(with the explicit round budget `2^|vars| + 1` and recursion fuel `depth f` — no hypothesis that it
returned), the answer is an ordered reduced diagram with the documented meaning, it is the
constant true exactly for valid formulas and the constant false exactly for unsatisfiable ones.
This joins `C01.evalF_sound / evalF_valid / evalF_unsat` (partial correctness) with the
termination theorem of `Proofs/Termination.lean`; `evalF_total_nofix` of `Thm/C01.lean` is the
special case without fixed points.
-/
import Rsbdd.Thm.C06

namespace Rsbdd.C01
open BDD Formula

theorem evalF_decides (f : Formula) (hg : GoodF f) :
    ∃ b, evalF (2 ^ (varsList f).length + 1) (depth f) f = some b ∧ ROBDD b ∧
      (∀ σ, (eval b σ = true ↔ Sem f FEnv.empty σ)) ∧
      (b = T ↔ ∀ σ, Sem f FEnv.empty σ) ∧ (b = F ↔ ∀ σ, ¬ Sem f FEnv.empty σ) := by
  obtain ⟨b, hb, hr, hs⟩ := Rsbdd.evalF_total f hg
  exact ⟨b, hb, hr, hs, evalF_valid _ _ f hg b hb, evalF_unsat _ _ f hg b hb⟩

/-- the same for what the parser produces when every fixed-point name occurs positively -/
theorem evalF_decides_pos (f : Formula) (hp : PosFix f) :
    ∃ b, evalF (2 ^ (varsList f).length + 1) (depth f) f = some b ∧ ROBDD b ∧
      (∀ σ, (eval b σ = true ↔ Sem f FEnv.empty σ)) ∧
      (b = T ↔ ∀ σ, Sem f FEnv.empty σ) ∧ (b = F ↔ ∀ σ, ¬ Sem f FEnv.empty σ) :=
  evalF_decides f (goodF_of_posFix f hp)

-- non-vacuity: a least fixed point under a quantifier is in scope of the theorem
example : PosFix (.quant .exists_ [1] (.fix 7 false (.bin .or (.var 1) (.bin .and (.var 7) (.var 2))))) := by
  simp [PosFix, Pos, Neg]

end Rsbdd.C01
