/-
C05 — counting comparisons count the true operands exactly.

Operands are arbitrary diagrams (no ordering hypothesis is needed for the denotation),
lists may be empty, repeat or overlap, the bound is any integer.  The Rust bound is an
`i64`; `cmpCount_range` / `cmpCountCompare_range` show every bound the recursion computes
stays within `len` of the initial one, so under the property's own side condition
("n ± len does not overflow i64") the `Int` model is exact.
The language-level forms (`[..] < n`, `[..] > n`, constants) are in `Thm/C01`/`Thm/C05L`.
-/
import Rsbdd.Proofs.SemSound

namespace Rsbdd.C05
open BDD

theorem eval_cmpCount (cmp : Int → Bool) (bs : List BDD) (n : Int) (σ : Asg) :
    eval (cmpCount cmp bs n) σ = cmp (n - (count bs σ : Nat)) := BDD.eval_cmpCount cmp bs n σ

/-- at-least-n -/
theorem eval_aln (bs : List BDD) (n : Int) (σ : Asg) :
    eval (aln bs n) σ = true ↔ n ≤ (count bs σ : Nat) := by
  simp [aln, BDD.eval_cmpCount]; omega

/-- at-most-n -/
theorem eval_amn (bs : List BDD) (n : Int) (σ : Asg) :
    eval (amn bs n) σ = true ↔ (count bs σ : Nat) ≤ n := by
  simp [amn, BDD.eval_cmpCount]

/-- exactly-n -/
theorem eval_exn (bs : List BDD) (n : Int) (σ : Asg) :
    eval (exn bs n) σ = true ↔ (count bs σ : Nat) = n := by
  simp [exn, BDD.eval_cmpCount]; omega

theorem eval_countLeq (a b : List BDD) (σ : Asg) :
    eval (countLeq a b) σ = true ↔ count a σ ≤ count b σ := by
  rw [countLeq, eval_cmpCountCompare, eval_aln]; omega

theorem eval_countLt (a b : List BDD) (σ : Asg) :
    eval (countLt a b) σ = true ↔ count a σ < count b σ := by
  rw [countLt, eval_cmpCountCompare, eval_aln]; omega

theorem eval_countGeq (a b : List BDD) (σ : Asg) :
    eval (countGeq a b) σ = true ↔ count a σ ≥ count b σ := by
  rw [countGeq, eval_cmpCountCompare, eval_amn]; omega

theorem eval_countGt (a b : List BDD) (σ : Asg) :
    eval (countGt a b) σ = true ↔ count a σ > count b σ := by
  rw [countGt, eval_cmpCountCompare, eval_amn]; omega

theorem eval_countEq (a b : List BDD) (σ : Asg) :
    eval (countEq a b) σ = true ↔ count a σ = count b σ := by
  rw [countEq, BDD.eval_and, Bool.and_eq_true, eval_countLeq, eval_countGeq]; omega

/-- the bounds `cmp_count` passes down / evaluates, in recursion order -/
def boundsCmpCount : List BDD → Int → List Int
  | [], n => [n]
  | _ :: bs, n => n :: (boundsCmpCount bs (n - 1) ++ boundsCmpCount bs n)

theorem cmpCount_range (bs : List BDD) (n : Int) :
    ∀ m ∈ boundsCmpCount bs n, n - bs.length ≤ m ∧ m ≤ n := by
  induction bs generalizing n with
  | nil => intro m hm; simp [boundsCmpCount] at hm; simp [hm]
  | cons b bs ih =>
    intro m hm
    simp [boundsCmpCount] at hm
    rcases hm with h | h | h
    · subst h; simp; omega
    · have := ih (n - 1) m h; simp; omega
    · have := ih n m h; simp; omega

/-- the bounds `cmp_count_compare` computes, ending in the bounds of the inner `cmp_count` -/
def boundsCompare : List BDD → List BDD → Int → List Int
  | [], b, n => boundsCmpCount b n
  | _ :: as, b, n => n :: (boundsCompare as b (n + 1) ++ boundsCompare as b n)

theorem cmpCountCompare_range (as bs : List BDD) (n : Int) :
    ∀ m ∈ boundsCompare as bs n, n - bs.length ≤ m ∧ m ≤ n + as.length := by
  induction as generalizing n with
  | nil => intro m hm; have := cmpCount_range bs n m hm; simp; omega
  | cons a as ih =>
    intro m hm
    simp [boundsCompare] at hm
    rcases hm with h | h | h
    · subst h; simp; omega
    · have := ih (n + 1) m h; simp; omega
    · have := ih n m h; simp; omega

/-- the language forms `[..] <= k`, `< k`, `>= k`, `> k`, `= k`: for every constant `k : Nat`
the syntax accepts (no bound: the evaluator clamps to `len + 1` before converting to i64)
the diagram is true exactly when the count compares as written; `<` and `>` are strict -/
theorem cntConst_spec (op : CntOp) (bs : List BDD) (k : Nat) (σ : Asg) :
    eval (Formula.cntConstApply op bs k) σ = true ↔ op.sem (count bs σ) k :=
  eval_cntConstApply op bs k σ

/-- the list-versus-list language forms compare the two counts -/
theorem cntVar_spec (op : CntOp) (l r : List BDD) (σ : Asg) :
    eval (Formula.cntVarApply op l r) σ = true ↔ op.sem (count l σ) (count r σ) :=
  eval_cntVarApply op l r σ

/-- after the clamp, every value the evaluator converts to i64 or adds/subtracts 1 to lies in
`[0, len + 1]`, and with `cmpCount_range` every bound lies in `[-len - 1 .. len + 2]` -/
theorem cntConst_clamped (bs : List BDD) (k : Nat) : min k (bs.length + 1) ≤ bs.length + 1 :=
  Nat.min_le_right _ _

-- non-vacuity: repeated operand, bound larger than the list, negative bound
example : aln [var 0, var 0, var 1] 2 = var 0 := by
  simp [aln, cmpCount, BDD.ite, BDD.implies, BDD.and, BDD.or, BDD.not, BDD.var, mk, mkConst]
example : amn [var 0] (-1) = F ∧ aln [var 0] 2 = F ∧ aln [] 0 = T := by
  simp [amn, aln, cmpCount, BDD.ite, BDD.implies, BDD.and, BDD.or, BDD.not, BDD.var, mk, mkConst]

end Rsbdd.C05
