/-
C09 — free-variable analysis is exact and bound names never leak into results.

`FV z f` (Proofs/FreeVars.lean) is the specification: `z` has an occurrence not enclosed by
a quantifier list or fixed-point binder on `z`.  `varIsFree` mirrors `var_is_free`.
`support_free` needs no monotonicity hypothesis: it holds for every fixed point whose
loop stops.  The table `raw2free` / `free_vars` / `vars` built by `new_with_env` is
covered in `Thm/C09Table` (with the parser model).
-/
import Rsbdd.Thm.C01

namespace Rsbdd.C09
open BDD Formula

/-- the implementation's free-variable test decides exactly "has a free occurrence" -/
theorem varIsFree_iff (z : Nat) (f : Formula) (hf : Parsed f) : varIsFree z f = true ↔ FV z f :=
  varIsFree_iff_fv z f hf

/-- the evaluated diagram is ordered and depends only on free variables: quantified and
fixed-point names never appear in an answer -/
theorem support_free (iters fuel : Nat) (f : Formula) (hf : Parsed f) (b : BDD)
    (h : evalF iters fuel f = some b) : ∀ z ∈ support b, varIsFree z f = true := by
  intro z hz
  have := (support_free_aux iters fuel).1 f b (ordLeaves_of_parsed f hf) h
  exact (varIsFree_iff_fv z f hf).mpr (this.2 z hz)

/-- in particular a name that is bound wherever it occurs is never tested by the answer -/
theorem bound_not_in_support (iters fuel : Nat) (f : Formula) (hf : Parsed f) (b : BDD)
    (h : evalF iters fuel f = some b) (z : Nat) (hz : varIsFree z f = false) : z ∉ support b := by
  intro hm; have := support_free iters fuel f hf b h z hm; simp [hz] at this

/-- the general form, for formulas with diagram leaves (the intermediate formulas of the
fixed-point loop) -/
theorem support_fv (iters fuel : Nat) (f : Formula) (hf : OrdLeaves f) (b : BDD)
    (h : evalF iters fuel f = some b) : Ordered b ∧ ∀ z ∈ support b, FV z f :=
  (support_free_aux iters fuel).1 f b hf h

-- non-vacuity: a name both bound and free; a binder on an absent name; nested same-name binders
example : varIsFree 0 (.bin .and (.var 0) (.quant .exists_ [0] (.var 0))) = true := by
  simp [varIsFree]
example : varIsFree 0 (.quant .forall_ [0, 1] (.fix 2 false (.bin .or (.var 0) (.var 2)))) = false := by
  simp [varIsFree]
example : Parsed (.quant .forall_ [0, 1] (.fix 2 false (.bin .or (.var 0) (.var 2)))) := by
  simp [Parsed]

end Rsbdd.C09
