/-
C12, the indexing in the printing code of `main` (`src/bin/rsbdd.rs`): `print_truth_table_recursive` and
`print_true_vars_recursive` write `vals[to_free_index(s)]`, `print_sized_line` reads `widths[i]` for every cell and
`widths[len]` for the result.  The model's lists are total (`List.set` out of range does nothing, `headD` has a
default); these theorems show that the totalisation is never used: every position written is inside the row
(`colOf_lt`, with the row as long as the columns), every row has exactly one cell per column (`tableRows_width`), and
in the output of `run` every row has one cell fewer than the header has labels — so `widths[i]` and `widths[len]` exist
(`run_rows_width`, `run_widths_in_range`).
-/
import Rsbdd.Thm.C12P
import Rsbdd.Model.CliText

namespace Rsbdd.C12
open Rsbdd Rsbdd.Cli Rsbdd.BDD

/-- `to_free_index` (as the column of a symbol) is a position inside the column list -/
theorem colOf_lt : ∀ (cols : List Nat) (s i : Nat), colOf cols s = some i → i < cols.length
  | [], _, _, h => by simp [colOf] at h
  | c :: cs, s, i, h => by
    unfold colOf at h
    split at h
    · cases h; simp
    · simp only [Option.map_eq_some_iff] at h
      obtain ⟨j, hj, rfl⟩ := h
      have := colOf_lt cs s j hj
      simp; omega

/-- every row of the table has as many cells as the row the walk started with -/
theorem tableRows_width (cols : List Nat) (flt : Filter) : ∀ (b : BDD) (vals : List Cell) (rs : List Row),
    tableRows cols flt b vals = some rs → ∀ r ∈ rs, r.cells.length = vals.length := by
  intro b
  induction b with
  | F =>
    intro vals rs h r hr
    simp only [tableRows, Option.some.injEq] at h
    subst h
    split at hr
    · simp at hr; subst hr; rfl
    · simp at hr
  | T =>
    intro vals rs h r hr
    simp only [tableRows, Option.some.injEq] at h
    subst h
    split at hr
    · simp at hr; subst hr; rfl
    · simp at hr
  | node l s r' ihl ihr =>
    intro vals rs h r hr
    unfold tableRows at h
    split at h
    · cases h
    · rename_i i hi
      split at h
      · rename_i a b' ha hb
        cases h
        rcases List.mem_append.mp hr with hm | hm
        · have := ihr _ _ ha r hm
          simpa using this
        · have := ihl _ _ hb r hm
          simpa using this
      · cases h

/-- in everything `run` prints as a table, a row has one cell per free variable and the header one label more (the
`*` column): the reads `widths[i]` (i < cells) and `widths[len]` of `print_sized_line` are inside `widths`, which has
one entry per label -/
theorem run_rows_width (iters fuel : Nat) (text : List Ch) (ordering : Option (List Ch)) (o : Options) (out : Output)
    (labels : List String) (h : run iters fuel text ordering o = some out) (hh : out.header = some labels) :
    ∀ r ∈ out.rows, r.cells.length + 1 = labels.length := by
  unfold run at h
  split at h
  · cases h
  · split at h
    · cases h
    · split at h
      · cases h
      · rename_i p _
        simp only at h
        split at h
        · cases h
        · rename_i r0 _
          split at h
          · rename_i rows vl hrows _
            cases h
            simp only at hh
            intro r hr
            by_cases ht : o.truthtable = true
            · simp only [ht, if_true, Option.some.injEq] at hh hrows
              subst hh
              have := tableRows_width _ _ _ _ _ hrows r hr
              simp at this
              simp [this]
            · simp only [ht, Bool.false_eq_true, if_false] at hh
              cases hh
          · cases h

/-- the widths are computed one per label (`headers.iter().map(..)`), so with `run_rows_width` every index
`print_sized_line` uses exists -/
theorem run_widths_in_range (iters fuel : Nat) (text : List Ch) (ordering : Option (List Ch)) (o : Options) (out : Output)
    (labels : List String) (h : run iters fuel text ordering o = some out) (hh : out.header = some labels) :
    ∀ r ∈ out.rows, ∀ i, i ≤ r.cells.length → i < (labels.map Text.width).length := by
  intro r hr i hi
  have := run_rows_width iters fuel text ordering o out labels h hh r hr
  simp; omega

end Rsbdd.C12
