/-
C13 — environment history never changes results; handed-out diagrams stay valid.

`Model/Env.lean` models `BDDEnv` with pointer-annotated trees: `erase` forgets the
addresses.  For every public operation `opM` (the environment-threading twin):

 * `erase (opM args env).result = op (erase args)` — the result's structure is the pure,
   environment-free function of the operands' structures: independent of what was computed
   before, identical to the outcome in a fresh environment (`exec_refines`, `run_refines`,
   `run_fresh_eq`);
 * the table only grows and stored pointers never change (`Ext`), so every handle returned
   earlier is still the table's node for its structure (`run_refines`, handles are a prefix);
 * `Inv`: keys are the erasures of the stored trees, both leaves are present, and every
   sub-diagram of every stored tree and handle is the table's one shared node for its
   structure ("exists exactly once"), preserved by every operation (`run_refines`).

Rust-level facts taken as given: a value behind `Rc<BDD>` is immutable; `FxHashMap` is a
correct map.  `RefCell` borrow state is not modelled (no borrow is held across a call;
exercised by the correspondence histories).
-/
import Rsbdd.Proofs.Env2

namespace Rsbdd.C13
open BDD Env PBDD

inductive BinKind where
  | and | or | implies | eq | xor | nor | nand
deriving DecidableEq, Repr

inductive CntKind where
  | aln | amn | exn
deriving DecidableEq, Repr

inductive CmpKind where
  | leq | lt | geq | gt | eq
deriving DecidableEq, Repr

/-- one public operation on the register file of handles -/
inductive Op where
  | const (b : Bool)
  | var (s : Nat)
  | not (i : Nat)
  | bin (k : BinKind) (i j : Nat)
  | ite (i j k : Nat)
  | cnt (k : CntKind) (n : Int) (is : List Nat)
  | cntCmp (k : CmpKind) (is js : List Nat)
  | exists_ (vs : List Nat) (i : Nat)
  | all (vs : List Nat) (i : Nat)
  | model (i : Nat)
  | retain (flt : Filter) (i : Nat)
  | fpOr (fuel i j : Nat)
  | fpAnd (fuel i j : Nat)

def pick {α : Type} (hs : List α) (is : List Nat) : Option (List α) := is.mapM (fun i => hs[i]?)

def binM : BinKind → PBDD → PBDD → M PBDD
  | .and => andM | .or => orM | .implies => impliesM | .eq => eqM | .xor => xorM | .nor => norM | .nand => nandM
def binP : BinKind → BDD → BDD → BDD
  | .and => BDD.and | .or => BDD.or | .implies => BDD.implies | .eq => BDD.eq | .xor => BDD.xor
  | .nor => BDD.nor | .nand => BDD.nand
def cntM : CntKind → List PBDD → Int → M PBDD
  | .aln => alnM | .amn => amnM | .exn => exnM
def cntP : CntKind → List BDD → Int → BDD
  | .aln => BDD.aln | .amn => BDD.amn | .exn => BDD.exn
def cmpM : CmpKind → List PBDD → List PBDD → M PBDD
  | .leq => countLeqM | .lt => countLtM | .geq => countGeqM | .gt => countGtM | .eq => countEqM
def cmpP : CmpKind → List BDD → List BDD → BDD
  | .leq => BDD.countLeq | .lt => BDD.countLt | .geq => BDD.countGeq | .gt => BDD.countGt | .eq => BDD.countEq

def liftM (m : M PBDD) : M (Option PBDD) := fun env => let r := m env; (some r.1, r.2)

/-- the operation in the long-lived environment; `none` = a register index is out of range -/
def exec (hs : List PBDD) : Op → Option (M (Option PBDD))
  | .const b => some (liftM (mkConstM b))
  | .var s => some (liftM (varM s))
  | .not i => (hs[i]?).map (fun a => liftM (notM a))
  | .bin k i j => do let a ← hs[i]?; let b ← hs[j]?; pure (liftM (binM k a b))
  | .ite i j k => do let a ← hs[i]?; let b ← hs[j]?; let c ← hs[k]?; pure (liftM (iteM a b c))
  | .cnt k n is => (pick hs is).map (fun bs => liftM (cntM k bs n))
  | .cntCmp k is js => do let a ← pick hs is; let b ← pick hs js; pure (liftM (cmpM k a b))
  | .exists_ vs i => (hs[i]?).map (fun a => liftM (existsM vs a))
  | .all vs i => (hs[i]?).map (fun a => liftM (allM vs a))
  | .model i => (hs[i]?).map (fun a => liftM (modelM a))
  | .retain flt i => (hs[i]?).map (fun a => liftM (retainM a flt))
  | .fpOr fuel i j => do let a ← hs[i]?; let g ← hs[j]?; pure (fpM (fun x => orM x g) fuel a)
  | .fpAnd fuel i j => do let a ← hs[i]?; let g ← hs[j]?; pure (fpM (fun x => andM x g) fuel a)

/-- the same operation on bare structures, with no environment at all -/
def execP (hs : List BDD) : Op → Option (Option BDD)
  | .const b => some (some (BDD.mkConst b))
  | .var s => some (some (BDD.var s))
  | .not i => (hs[i]?).map (fun a => some (BDD.not a))
  | .bin k i j => do let a ← hs[i]?; let b ← hs[j]?; pure (some (binP k a b))
  | .ite i j k => do let a ← hs[i]?; let b ← hs[j]?; let c ← hs[k]?; pure (some (BDD.ite a b c))
  | .cnt k n is => (pick hs is).map (fun bs => some (cntP k bs n))
  | .cntCmp k is js => do let a ← pick hs is; let b ← pick hs js; pure (some (cmpP k a b))
  | .exists_ vs i => (hs[i]?).map (fun a => some (BDD.exists_ vs a))
  | .all vs i => (hs[i]?).map (fun a => some (BDD.all vs a))
  | .model i => (hs[i]?).map (fun a => some (BDD.model a))
  | .retain flt i => (hs[i]?).map (fun a => some (BDD.retain a flt))
  | .fpOr fuel i j => do let a ← hs[i]?; let g ← hs[j]?; pure (BDD.fpIter (fun x => BDD.or x g) fuel a)
  | .fpAnd fuel i j => do let a ← hs[i]?; let g ← hs[j]?; pure (BDD.fpIter (fun x => BDD.and x g) fuel a)

/-- what every operation guarantees -/
structure OpPost (env : Env) (r : Option PBDD × Env) (pure : Option BDD) : Prop where
  inv : Inv r.2
  ext : Ext env r.2
  refines : r.1.map PBDD.erase = pure
  good : ∀ p, r.1 = some p → Good r.2.table p

theorem liftM_post {env : Env} {m : M PBDD} {pure : BDD} (h : Post env (m env) pure) :
    OpPost env (liftM m env) (some pure) :=
  ⟨h.inv, h.ext, by simp [liftM, h.erase], fun p hp => by simp [liftM] at hp; subst hp; exact h.good⟩

theorem binM_post (k : BinKind) (a b : PBDD) (env : Env) (h : Inv env) (ha : Good env.table a)
    (hb : Good env.table b) : Post env (binM k a b env) (binP k a.erase b.erase) := by
  cases k
  · exact andM_post a b env h ha hb
  · exact orM_post a b env h ha hb
  · exact impliesM_post a b env h ha hb
  · exact eqM_post a b env h ha hb
  · exact xorM_post a b env h ha hb
  · exact norM_post a b env h ha hb
  · exact nandM_post a b env h ha hb

theorem cntM_post (k : CntKind) (bs : List PBDD) (n : Int) (env : Env) (h : Inv env)
    (hb : ∀ b ∈ bs, Good env.table b) : Post env (cntM k bs n env) (cntP k (bs.map PBDD.erase) n) := by
  cases k <;> exact cmpCountM_post _ bs n env h hb

theorem cmpM_post (k : CmpKind) (as bs : List PBDD) (env : Env) (h : Inv env)
    (ha : ∀ a ∈ as, Good env.table a) (hb : ∀ b ∈ bs, Good env.table b) :
    Post env (cmpM k as bs env) (cmpP k (as.map PBDD.erase) (bs.map PBDD.erase)) := by
  have hal : ∀ (n : Int) (env : Env), Inv env → (∀ b ∈ bs, Good env.table b) →
      Post env (alnM bs n env) (BDD.aln (bs.map PBDD.erase) n) := fun n env h hb => cmpCountM_post _ bs n env h hb
  have ham : ∀ (n : Int) (env : Env), Inv env → (∀ b ∈ bs, Good env.table b) →
      Post env (amnM bs n env) (BDD.amn (bs.map PBDD.erase) n) := fun n env h hb => cmpCountM_post _ bs n env h hb
  cases k
  · exact cmpCountCompareM_post bs hal as 0 env h ha hb
  · exact cmpCountCompareM_post bs hal as 1 env h ha hb
  · exact cmpCountCompareM_post bs ham as 0 env h ha hb
  · exact cmpCountCompareM_post bs ham as (-1) env h ha hb
  · show Post env (countEqM as bs env) _
    unfold countEqM countLeqM countGeqM
    have p1 := cmpCountCompareM_post bs hal as 0 env h ha hb
    have p2 := cmpCountCompareM_post bs ham as 0 _ p1.inv (fun a hm => p1.good_of_ext (ha a hm))
      (fun b hm => p1.good_of_ext (hb b hm))
    have p3 := andM_post _ _ _ p2.inv (p2.good_of_ext p1.good) p2.good
    refine Post.seq p1 (Post.seq p2 ?_)
    simpa [cmpP, BDD.countEq, BDD.countLeq, BDD.countGeq, p1.erase, p2.erase] using p3

theorem getElem?_map_erase (hs : List PBDD) (i : Nat) : (hs.map PBDD.erase)[i]? = (hs[i]?).map PBDD.erase := by
  simp

theorem pick_map_erase (hs : List PBDD) (is : List Nat) :
    pick (hs.map PBDD.erase) is = (pick hs is).map (List.map PBDD.erase) := by
  induction is with
  | nil => simp [pick]
  | cons i is ih =>
    simp only [pick, List.mapM_cons] at ih ⊢
    rw [getElem?_map_erase]
    cases hs[i]? with
    | none => simp
    | some a =>
      simp only [Option.map_some, Option.bind_eq_bind, Option.bind_some]
      rw [ih]
      cases is.mapM (fun i => hs[i]?) <;> simp

theorem good_of_getElem? {hs : List PBDD} {tbl : List (BDD × PBDD)} (hg : ∀ x ∈ hs, Good tbl x)
    {i : Nat} {a : PBDD} (h : hs[i]? = some a) : Good tbl a :=
  hg a (List.mem_of_getElem? h)

theorem good_of_pick {hs : List PBDD} {tbl : List (BDD × PBDD)} (hg : ∀ x ∈ hs, Good tbl x) :
    ∀ {is : List Nat} {bs : List PBDD}, pick hs is = some bs → ∀ b ∈ bs, Good tbl b := by
  intro is
  induction is with
  | nil => intro bs h b hb; simp [pick] at h; subst h; simp at hb
  | cons i is ih =>
    intro bs h b hb
    simp only [pick, List.mapM_cons, Option.bind_eq_bind] at h
    cases hi : hs[i]? with
    | none => simp [hi] at h
    | some a =>
      simp only [hi, Option.bind_some] at h
      cases hr : is.mapM (fun i => hs[i]?) with
      | none => simp [hr] at h
      | some rest =>
        simp only [hr, Option.bind_some] at h
        cases h
        simp at hb
        rcases hb with rfl | hb
        · exact good_of_getElem? hg hi
        · exact ih hr b hb

/-- every public operation, executed in any reachable environment on any handles, yields
the structure the pure operation yields on the handles' structures, keeps the invariant,
only extends the table, and returns a handle all of whose sub-diagrams are shared nodes -/
theorem exec_refines (hs : List PBDD) (op : Op) (env : Env) (h : Inv env)
    (hg : ∀ x ∈ hs, Good env.table x) :
    match exec hs op with
    | none => execP (hs.map PBDD.erase) op = none
    | some m => OpPost env (m env) ((execP (hs.map PBDD.erase) op).getD none) ∧
                (execP (hs.map PBDD.erase) op).isSome := by
  cases op with
  | const b => exact ⟨liftM_post (mkConstM_post b env h), rfl⟩
  | var s => exact ⟨liftM_post (varM_post s env h), rfl⟩
  | not i =>
    simp only [exec, execP, getElem?_map_erase]
    cases hi : hs[i]? with
    | none => simp
    | some a => exact ⟨liftM_post (notM_post a env h (good_of_getElem? hg hi)), rfl⟩
  | bin k i j =>
    simp only [exec, execP, getElem?_map_erase, Option.bind_eq_bind]
    cases hi : hs[i]? with
    | none => simp
    | some a =>
      cases hj : hs[j]? with
      | none => simp
      | some b =>
        exact ⟨liftM_post (binM_post k a b env h (good_of_getElem? hg hi) (good_of_getElem? hg hj)), rfl⟩
  | ite i j k =>
    simp only [exec, execP, getElem?_map_erase, Option.bind_eq_bind]
    cases hi : hs[i]? with
    | none => simp
    | some a =>
      cases hj : hs[j]? with
      | none => simp
      | some b =>
        cases hk : hs[k]? with
        | none => simp
        | some c =>
          exact ⟨liftM_post (iteM_post a b c env h (good_of_getElem? hg hi) (good_of_getElem? hg hj)
            (good_of_getElem? hg hk)), rfl⟩
  | cnt k n is =>
    simp only [exec, execP, pick_map_erase]
    cases hp : pick hs is with
    | none => simp
    | some bs => exact ⟨liftM_post (cntM_post k bs n env h (good_of_pick hg hp)), rfl⟩
  | cntCmp k is js =>
    simp only [exec, execP, pick_map_erase, Option.bind_eq_bind]
    cases hp : pick hs is with
    | none => simp
    | some as =>
      cases hq : pick hs js with
      | none => simp
      | some bs => exact ⟨liftM_post (cmpM_post k as bs env h (good_of_pick hg hp) (good_of_pick hg hq)), rfl⟩
  | exists_ vs i =>
    simp only [exec, execP, getElem?_map_erase]
    cases hi : hs[i]? with
    | none => simp
    | some a => exact ⟨liftM_post (existsM_post vs a env h (good_of_getElem? hg hi)), rfl⟩
  | all vs i =>
    simp only [exec, execP, getElem?_map_erase]
    cases hi : hs[i]? with
    | none => simp
    | some a => exact ⟨liftM_post (allM_post vs a env h (good_of_getElem? hg hi)), rfl⟩
  | model i =>
    simp only [exec, execP, getElem?_map_erase]
    cases hi : hs[i]? with
    | none => simp
    | some a => exact ⟨liftM_post (modelM_post a env h (good_of_getElem? hg hi)), rfl⟩
  | retain flt i =>
    simp only [exec, execP, getElem?_map_erase]
    cases hi : hs[i]? with
    | none => simp
    | some a => exact ⟨liftM_post (retainM_post a flt env h (good_of_getElem? hg hi)), rfl⟩
  | fpOr fuel i j =>
    simp only [exec, execP, getElem?_map_erase, Option.bind_eq_bind]
    cases hi : hs[i]? with
    | none => simp
    | some a =>
      cases hj : hs[j]? with
      | none => simp
      | some g =>
        have hgood := good_of_getElem? hg hj
        have key := fpM_post (base := env) (tM := fun x => orM x g) (t := fun x => BDD.or x g.erase)
          (fun x e he hxe hx => orM_post x g e he hx (Good.ext hxe hgood)) fuel a env h (Ext.refl _)
          (good_of_getElem? hg hi)
        exact ⟨⟨key.1, key.2.1, key.2.2.1, key.2.2.2⟩, rfl⟩
  | fpAnd fuel i j =>
    simp only [exec, execP, getElem?_map_erase, Option.bind_eq_bind]
    cases hi : hs[i]? with
    | none => simp
    | some a =>
      cases hj : hs[j]? with
      | none => simp
      | some g =>
        have hgood := good_of_getElem? hg hj
        have key := fpM_post (base := env) (tM := fun x => andM x g) (t := fun x => BDD.and x g.erase)
          (fun x e he hxe hx => andM_post x g e he hx (Good.ext hxe hgood)) fuel a env h (Ext.refl _)
          (good_of_getElem? hg hi)
        exact ⟨⟨key.1, key.2.1, key.2.2.1, key.2.2.2⟩, rfl⟩


/-- a history: each operation appends its result (when it has one) to the register file -/
def run : Env → List PBDD → List Op → Option (Env × List PBDD)
  | env, hs, [] => some (env, hs)
  | env, hs, op :: ops =>
    match exec hs op with
    | none => none
    | some m =>
      match m env with
      | (some r, env') => run env' (hs ++ [r]) ops
      | (none, _) => none          -- a fixed-point budget ran out

/-- the same history on bare structures -/
def runP : List BDD → List Op → Option (List BDD)
  | hs, [] => some hs
  | hs, op :: ops =>
    match execP hs op with
    | some (some r) => runP (hs ++ [r]) ops
    | _ => none

/-- every finite sequence of public operations: the invariant holds at the end, the table
has only grown, the handles are the old handles followed by the new results (so earlier
handles are untouched and still shared nodes), and the structures are exactly those of the
environment-free run -/
theorem run_refines : ∀ (ops : List Op) (env : Env) (hs : List PBDD), Inv env →
    (∀ x ∈ hs, Good env.table x) → ∀ env' hs', run env hs ops = some (env', hs') →
    Inv env' ∧ Ext env env' ∧ (∀ x ∈ hs', Good env'.table x) ∧ (∃ new, hs' = hs ++ new) ∧
      runP (hs.map PBDD.erase) ops = some (hs'.map PBDD.erase) := by
  intro ops
  induction ops with
  | nil =>
    intro env hs h hg env' hs' hr
    simp [run] at hr
    obtain ⟨rfl, rfl⟩ := hr
    exact ⟨h, Ext.refl _, hg, ⟨[], by simp⟩, rfl⟩
  | cons op ops ih =>
    intro env hs h hg env' hs' hr
    have key := exec_refines hs op env h hg
    simp only [run] at hr
    cases hm : exec hs op with
    | none => simp [hm] at hr
    | some m =>
      simp only [hm] at hr key
      obtain ⟨post, hsome⟩ := key
      cases hres : m env with
      | mk res env1 =>
        simp only [hres] at hr post
        cases res with
        | none => simp at hr
        | some r =>
          simp only at hr
          have hg1 : ∀ x ∈ hs ++ [r], Good env1.table x := by
            intro x hx
            simp at hx
            rcases hx with hx | rfl
            · exact Good.ext post.ext (hg x hx)
            · exact post.good _ rfl
          obtain ⟨i1, i2, i3, ⟨new, i4⟩, i5⟩ := ih env1 (hs ++ [r]) post.inv hg1 env' hs' hr
          refine ⟨i1, post.ext.trans i2, i3, ⟨r :: new, by rw [i4]; simp⟩, ?_⟩
          have href := post.refines
          simp only [Option.map_some] at href
          cases hp : execP (hs.map PBDD.erase) op with
          | none => simp [hp] at hsome
          | some pr =>
            simp only [hp, Option.getD_some] at href
            simp only [runP, hp, ← href]
            simpa using i5

/-- the long-lived environment and a fresh environment per history agree on every result -/
theorem run_fresh_eq (ops : List Op) (env : Env) (hs : List PBDD) (h : Inv env)
    (hg : ∀ x ∈ hs, Good env.table x) (env' : Env) (hs' : List PBDD)
    (hr : run env hs ops = some (env', hs')) :
    hs'.map PBDD.erase = (runP (hs.map PBDD.erase) ops).getD [] := by
  obtain ⟨_, _, _, _, h5⟩ := run_refines ops env hs h hg env' hs' hr
  simp [h5]

/-- both leaves are in the table of every reachable environment -/
theorem leaves_present (ops : List Op) (env' : Env) (hs' : List PBDD)
    (hr : run Env.new [] ops = some (env', hs')) :
    (∃ p, lookup .T env'.table = some p) ∧ (∃ p, lookup .F env'.table = some p) := by
  obtain ⟨i, _, _, _, _⟩ := run_refines ops Env.new [] inv_new (fun x hx => by simp at hx) env' hs' hr
  exact ⟨i.leafT, i.leafF⟩

/-- "each structurally distinct sub-diagram exists exactly once": two sub-diagrams of reachable
handles with the same structure are the same pointer-annotated tree (same address) -/
theorem shared_once {env : Env} {a b s₁ s₂ : PBDD} (ha : Good env.table a) (hb : Good env.table b)
    (h1 : s₁ ∈ subtrees a) (h2 : s₂ ∈ subtrees b) (he : s₁.erase = s₂.erase) : s₁ = s₂ := by
  have e1 := ha s₁ h1
  have e2 := hb s₂ h2
  rw [he] at e1
  rw [e1] at e2
  exact Option.some.inj e2

-- non-vacuity: a short history in which the second result re-uses the first's nodes
example : (run Env.new [] [.var 1, .var 2, .bin .and 0 1, .bin .and 1 0, .not 2]).isSome = true := by rfl

end Rsbdd.C13
