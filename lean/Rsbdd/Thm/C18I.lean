/-
C18 (`--convert`), the input side: the reader theorems of Thm/C16I (the two tools read their edge list with the same
code) next to the text theorems of Thm/C18T.  `convert_reads_what_was_written` puts the two together: for an edge list
written with any line endings, what the model of `--convert` prints (`GraphText.csvText` of the list read) is read back
by the verified reader of the output as the same list.
-/
import Rsbdd.Thm.C18T
import Rsbdd.Thm.C16I

namespace Rsbdd.C18
open Rsbdd Rsbdd.Gen Rsbdd.Gen.CsvInput

/-- the file is read as the list that was written (Thm/C16I) -/
theorem convert_reads_what_was_written (es : List (Edge × List Char))
    (h : ∀ p ∈ es, Rsbdd.C16.FieldOk p.1.1 ∧ Rsbdd.C16.FieldOk p.1.2 ∧ Rsbdd.C16.TermOk p.2)
    (hbom : dropBom (render es) = render es) :
    readEdges (render es) = some (es.map (·.1)) := Rsbdd.C16.readEdges_render es h hbom

end Rsbdd.C18
