/-
C12, the printing stage: once the text has been read, parsed and evaluated, *every* combination
of output options of the model of `main` produces an output — the column lookup
(`to_free_index`, the one panic-capable step of the printers) succeeds on every node the table
printer and the `-v` printer visit, also after `-c` (retain) and `-m` (model) rewrote the
diagram, and also for `-b 0` (where the default diagram `False` is printed).  So `Cli.run` is
`none` only for the four documented error exits.
-/
import Rsbdd.Thm.C12
import Rsbdd.Thm.C20
import Rsbdd.Proofs.Table

namespace Rsbdd.C12
open BDD Formula Parser Cli

/-- the variables of `model f` are variables of `f` (no hypothesis on `f`) -/
theorem support_model_subset : ∀ (f : BDD) (x : Nat), x ∈ support (model f) → x ∈ support f := by
  intro f
  induction f with
  | F => intro x h; exact h
  | T => intro x h; exact h
  | node t v f' iht ihf =>
    intro x h
    have hv : ∀ y, y ∈ support (BDD.var v) → y = v := by
      intro y hy; simp [BDD.var, mk, mkConst, support] at hy; exact hy
    simp only [model] at h
    split at h
    · rcases mem_support_and h with h | h
      · simp [support, iht x h]
      · simp [support, hv x h]
    · split at h
      · rcases mem_support_and h with h | h
        · simp [support, hv x (mem_support_not h)]
        · simp [support, ihf x h]
      · simp [mkConst, support] at h

theorem tableRows_total (cols : List Nat) (flt : Filter) : ∀ (b : BDD) (vals : List Cell),
    (∀ v ∈ support b, v ∈ cols) → ∃ rs, tableRows cols flt b vals = some rs := by
  intro b
  induction b with
  | F => intro vals _; exact ⟨_, rfl⟩
  | T => intro vals _; exact ⟨_, rfl⟩
  | node l s r ihl ihr =>
    intro vals h
    obtain ⟨i, hi⟩ := colOf_of_mem (h s (by simp [support]))
    obtain ⟨a, ha⟩ := ihr (vals.set i .f) (fun v hv => h v (by simp [support, hv]))
    obtain ⟨b', hb⟩ := ihl (vals.set i .t) (fun v hv => h v (by simp [support, hv]))
    exact ⟨a ++ b', by simp [tableRows, hi, ha, hb]⟩

theorem trueVarRows_total (cols : List Nat) (names : List String) : ∀ (b : BDD) (vals : List Cell),
    (∀ v ∈ support b, v ∈ cols) → ∃ rs, trueVarRows cols names b vals = some rs := by
  intro b
  induction b with
  | F => intro vals _; exact ⟨_, rfl⟩
  | T => intro vals _; exact ⟨_, rfl⟩
  | node l s r ihl ihr =>
    intro vals h
    obtain ⟨i, hi⟩ := colOf_of_mem (h s (by simp [support]))
    obtain ⟨a, ha⟩ := ihr (vals.set i .f) (fun v hv => h v (by simp [support, hv]))
    obtain ⟨b', hb⟩ := ihl (vals.set i .t) (fun v hv => h v (by simp [support, hv]))
    exact ⟨a ++ b', by simp [trueVarRows, hi, ha, hb]⟩

/-- for every text, ordering file and option set: if the ordering file and the text are read,
the text parses and the evaluation returns, then `main` produces its output — printing cannot
fail -/
theorem run_total (iters fuel : Nat) (text : List Ch) (ordering : Option (List Ch)) (o : Options)
    {ord : List (String × Nat)} {ts : List Token} {p : ParsedInfo} {r0 : BDD}
    (hord : orderingOf ordering = some ord)
    (ht : tokenize text ord = some ts) (hp : newWithEnv ts = some p)
    (he : (if o.benchmark.getD 1 == 0 then some BDD.F else evalF iters fuel p.formula) = some r0) :
    ∃ out, run iters fuel text ordering o = some out := by
  -- every variable of the evaluated diagram is a column
  have hsup0 : ∀ v ∈ support r0, v ∈ p.freeVars.map (·.2) := by
    intro v hv
    split at he
    · cases he; simp [support] at hv
    · have := C12.toFreeIndex_total ht hp he v hv
      simp only [toFreeIndex] at this
      rw [List.findIdx?_isSome] at this
      simp only [List.any_eq_true, beq_iff_eq] at this
      obtain ⟨q, hq, hqv⟩ := this
      simp only [List.mem_map]
      exact ⟨q, hq, hqv⟩
  have hsup2 : ∀ v ∈ support (if o.model then BDD.model (BDD.retain r0 o.retain) else BDD.retain r0 o.retain),
      v ∈ p.freeVars.map (·.2) := by
    intro v hv
    apply hsup0
    split at hv
    · exact C20.retain_support _ _ v (support_model_subset _ v hv)
    · exact C20.retain_support _ _ v hv
  obtain ⟨rows, hrows⟩ := tableRows_total (p.freeVars.map (·.2)) o.filter _ ((p.freeVars.map (·.2)).map (fun _ => Cell.any)) hsup2
  obtain ⟨vl, hvl⟩ := trueVarRows_total (p.freeVars.map (·.2)) (p.freeVars.map (·.1) ++ ["*"]) _ ((p.freeVars.map (·.2)).map (fun _ => Cell.any)) hsup2
  have he' : (if o.benchmark.getD 1 = 0 then some BDD.F else evalF iters fuel p.formula) = some r0 := by
    simpa using he
  simp only [List.map_map] at hrows hvl
  unfold run
  cases o.truthtable <;> cases o.vars <;> simp [hord, ht, hp, he', hrows, hvl]

end Rsbdd.C12
