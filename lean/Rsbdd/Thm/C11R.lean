/-
C11, the text level of the last sentence ("re-importing it reproduces the identical table"):
`readOrdering_export` — the text that `-r` prints (one variable name per line, in variable order),
read back as an ordering file by the tokenizer, gives name k the id k; and so
`export_reimport_text`: evaluating the same formula under the re-read file yields the identical
variable list, header, rows and `-v` lines.

The character classes (`\w`, `\d`) are the regex crate's: `clsOf` is any function giving every
character of the formula text its class (the harness supplies the crate's own), with a line feed
and `{` outside `\w`.  The proof follows a name from the variable list back to the name lexeme it
was scanned from (`scan_ident`, `toTokens_var_origin`), shows that such a run of characters
followed by a line feed is scanned as exactly that name again (`rescan`: no symbol can start at
its first character — every symbol's first character is itself a symbol —, it does not start
with a digit, and it is no keyword), and that fresh distinct names are numbered 0, 1, 2, …
(`toTokens_idents`, `extractVars_aux`).
-/
import Rsbdd.Proofs.Reimport4
namespace Rsbdd.C11
open Parser Cli BDD Formula

/-- C11, the missing step of the round trip: the text that `-r` prints, read as an ordering file,
gives name k the id k -/
theorem readOrdering_export {cs : List Ch} {o1 : List (String × Nat)} {ts1 : List Token} {p1 : ParsedInfo}
    (clsOf : Char → Cls) (hnl : clsOf '\n' = .other) (hbr : clsOf '{' = .other)
    (hcls : ∀ x ∈ cs, x.cls = clsOf x.c)
    (ho1 : OrderingOk o1) (ht1 : tokenize cs o1 = some ts1) (hp1 : newWithEnv ts1 = some p1) :
    readOrdering (exportText clsOf (p1.vars.map (·.1))) = some ((p1.vars.map (·.1)).zipIdx) := by
  have hnames := vars_are_idents clsOf hbr hcls ho1 ht1 hp1
  have hnd : (p1.vars.map (·.1)).Nodup := (C09.vars_spec ho1 ht1 hp1).2.1
  generalize p1.vars.map (·.1) = names at hnames hnd
  have hsep := newline_sep clsOf hnl
  have htext : exportText clsOf names = (names.map (reCh clsOf)).flatMap (fun w => w ++ [⟨'\n', clsOf '\n'⟩]) := by
    simp [exportText, List.flatMap_map]
  have hws : ∀ w ∈ names.map (reCh clsOf), IdentW w ∧ ∀ x, w.head? = some x → x.c ≠ '{' := by
    intro w hw
    obtain ⟨n, hn, rfl⟩ := List.mem_map.mp hw
    exact (hnames n hn).2
  have hfuel := flatMap_length_ge ⟨'\n', clsOf '\n'⟩ (names.map (reCh clsOf)) (fun w hw => (hws w hw).1.ne)
  have hscan := rescan _ hsep (names.map (reCh clsOf)) ((exportText clsOf names).length + 1) hws
    (by rw [htext]; omega)
  unfold readOrdering tokenize
  rw [htext] at hscan ⊢
  rw [hscan, List.map_map]
  have hmap : (names.map ((fun w => Lexeme.ident (chars w)) ∘ reCh clsOf)) = names.map Lexeme.ident := by
    apply List.map_congr_left
    intro n _
    simp [chars_reCh]
  rw [hmap, toTokens_idents names (VarTable.preload []) hnd]
  · simp only [Option.map_some]
    unfold extractVars
    have : (VarTable.preload []).counter = 0 := rfl
    rw [this, extractVars_aux names 0 [] [Token.eof] (by simp)]
    simp [extractStep]
  · intro n hn
    exact ⟨(hnames n hn).1, rfl⟩

/-- C11, last sentence, at the level of the exported text -/
theorem export_reimport_text {cs : List Ch} {o1 o2 : List (String × Nat)} {ts1 ts2 : List Token}
    {p1 p2 : ParsedInfo} {b1 b2 : BDD} {i1 u1 i2 u2 : Nat}
    (clsOf : Char → Cls) (hnl : clsOf '\n' = .other) (hbr : clsOf '{' = .other)
    (hcls : ∀ x ∈ cs, x.cls = clsOf x.c)
    (ho1 : OrderingOk o1) (ht1 : tokenize cs o1 = some ts1) (hp1 : newWithEnv ts1 = some p1)
    (hre : orderingOf (some (exportText clsOf (p1.vars.map (·.1)))) = some o2)
    (ht2 : tokenize cs o2 = some ts2) (hp2 : newWithEnv ts2 = some p2)
    (hg1 : GoodF p1.formula) (hg2 : GoodF p2.formula)
    (he1 : evalF i1 u1 p1.formula = some b1) (he2 : evalF i2 u2 p2.formula = some b2) :
    p2.vars.map (·.1) = p1.vars.map (·.1) ∧
    p2.freeVars.map (·.1) = p1.freeVars.map (·.1) ∧
    (∀ flt, tableRows (p2.freeVars.map (·.2)) flt b2 ((p2.freeVars.map (·.2)).map (fun _ => Cell.any)) =
            tableRows (p1.freeVars.map (·.2)) flt b1 ((p1.freeVars.map (·.2)).map (fun _ => Cell.any))) ∧
    (∀ names, trueVarRows (p2.freeVars.map (·.2)) names b2 ((p2.freeVars.map (·.2)).map (fun _ => Cell.any)) =
              trueVarRows (p1.freeVars.map (·.2)) names b1 ((p1.freeVars.map (·.2)).map (fun _ => Cell.any))) := by
  have := readOrdering_export clsOf hnl hbr hcls ho1 ht1 hp1
  simp only [orderingOf, this, Option.some.injEq] at hre
  subst hre
  exact export_reimport ho1 ht1 hp1 ht2 hp2 hg1 hg2 he1 he2

-- non-vacuity: the printed names `b`, `a'` are read back as b -> 0, a' -> 1
example : readOrdering (exportText asciiCls ["b", "a'"]) = some [("b", 0), ("a'", 1)] := by
  decide +kernel

end Rsbdd.C11
