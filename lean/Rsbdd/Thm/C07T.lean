/-
C07, second sentence ("`rsbdd -m -t` therefore prints exactly one satisfying row for a satisfiable formula") from
the bytes of standard output: composed from `model_cube` / `model_support` / `model_implies` (Thm/C07),
`rows_of_cube`, `rows_filter`, `rows_partition` (Thm/C10), `evalF_sound` (Thm/C01) and `stdout_read_back`
(Thm/C10T: the printed text, read back, is the output it was printed from).
-/
import Rsbdd.Thm.C10T
import Rsbdd.Thm.C07
import Rsbdd.Thm.C12P
namespace Rsbdd.C07
open BDD Cli Formula Parser Cli.Text C10

/-- C07, second sentence, from the bytes: for every successful run of `rsbdd -m -t` (no `-c`, one evaluation, any row
filter) on a formula that is satisfiable, the text on standard output, read back, has the rows the run printed, and
among them EXACTLY ONE row whose result is True; every assignment that row covers satisfies the formula -/
theorem stdout_model_row {cs : List Ch} {ordering : Option (List Ch)} {ord : List (String × Nat)}
    {iters fuel : Nat} {o : Options} {out : Output}
    (clsOf : Char → Cls) (hsep : ∀ c ∈ ['\n', '|', ' ', ';', ','], clsOf c = .other) (hbr : clsOf '{' = .other)
    (hcls : ∀ x ∈ cs, x.cls = clsOf x.c)
    (hord : orderingOf ordering = some ord) (ho : OrderingOk ord)
    (hopt : o.truthtable = true ∧ o.model = true ∧ o.retain = .any ∧ o.benchmark = none ∧ o.filter ≠ .false_)
    (hg : ∀ ts p, tokenize cs ord = some ts → newWithEnv ts = some p → GoodF p.formula)
    (hrun : run iters fuel cs ordering o = some out) :
    ∃ ts p, tokenize cs ord = some ts ∧ newWithEnv ts = some p ∧
      (readStdout (render out)).map (·.rows) = some out.rows ∧
      ((∃ σ, Sem p.formula FEnv.empty σ) →
        ∃ row, out.rows.filter (·.result) = [row] ∧
          ∀ σ, Covers row.cells (p.freeVars.map (·.2)) σ → Sem p.formula FEnv.empty σ) := by
  have hread := stdout_read_back clsOf hsep hbr hcls hord ho hrun
  obtain ⟨htt, hm, hc, hb, hf⟩ := hopt
  unfold run at hrun
  simp only [hord, htt, hm, hc, hb, Option.getD_none] at hrun
  split at hrun
  · simp at hrun
  · rename_i ts ht
    split at hrun
    · simp at hrun
    · rename_i p hp
      refine ⟨ts, p, ht, hp, by rw [hread]; rfl, ?_⟩
      simp only [show ((1 : Nat) == 0) = false from rfl, Bool.false_eq_true, ite_false] at hrun
      split at hrun
      · simp at hrun
      · rename_i r0 he
        obtain ⟨hrob, hsem⟩ := C01.evalF_sound iters fuel p.formula (hg ts p ht hp) r0 he
        simp only [C20.retain_any, ite_true] at hrun
        intro ⟨σ0, hσ0⟩
        -- the model is a cube over the columns
        have hne : model r0 ≠ F := by
          intro e
          have := (model_false_iff hrob).mp e σ0
          rw [(hsem σ0).mpr hσ0] at this
          cases this
        have hcube := model_cube hrob.1 hne
        have hsup : ∀ v ∈ support (model r0), v ∈ p.freeVars.map (·.2) := by
          intro v hv
          have h1 := model_support hrob.1 v hv
          have := C12.toFreeIndex_total ht hp he v h1
          simp only [toFreeIndex] at this
          rw [List.findIdx?_isSome] at this
          simp only [List.any_eq_true, beq_iff_eq] at this
          obtain ⟨q, hq, hqv⟩ := this
          exact List.mem_map.mpr ⟨q, hq, hqv⟩
        generalize hcols : p.freeVars.map (·.2) = cols at hsup hrun ⊢
        obtain ⟨row, hrow⟩ := rows_of_cube cols (model r0) (blank cols) hcube hsup
        obtain ⟨rsA, hA, _, hsound, _⟩ := rows_partition cols .any (model r0) (model_robdd hrob.1).1 hsup
        have hT := rows_filter cols .true_ (model r0) (blank cols)
        rw [hrow, hA] at hT
        simp only [Option.map_some, Option.some.injEq, Filter.passes] at hT
        have hF := rows_filter cols o.filter (model r0) (blank cols)
        rw [hA] at hF
        simp only [Option.map_some] at hF
        simp only [blank] at hF
        split at hrun
        · rename_i rows vl h1 h2
          rw [hF] at h1
          cases h1
          cases hrun
          refine ⟨row, ?_, ?_⟩
          · simp only [List.filter_filter]
            rw [hT]
            apply List.filter_congr
            intro r _
            cases hfl : o.filter <;> simp_all [Filter.passes]
          · intro σ hcov
            have hmem : row ∈ rsA := by
              have : row ∈ rsA.filter (fun r => r.result) := by rw [← hT]; simp
              exact (List.mem_filter.mp this).1
            have hres : row.result = true := by
              have : row ∈ rsA.filter (fun r => r.result) := by rw [← hT]; simp
              exact (List.mem_filter.mp this).2
            have := (hsound row hmem σ hcov).1
            rw [hres] at this
            exact (hsem σ).mp (model_implies r0 σ this.symm)
        · simp at hrun

end Rsbdd.C07
