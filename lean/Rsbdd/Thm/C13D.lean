/-
C13, formula level: `{references}` with definitions are the definitions written in place (`inlineRefs`);
an evaluation depends on the current definition table only.
-/
import Rsbdd.Thm.C13
import Rsbdd.Model.Formula
import Rsbdd.Thm.C01
namespace Rsbdd.C13
open Formula

mutual
/-- without definitions every `{reference}` stays what it was: the undefined reference (false) -/
theorem inlineRefs_nil : ∀ (fuel : Nat) (f : Formula), inlineRefs [] fuel f = f
  | 0, f => by cases f <;> rfl
  | fuel + 1, .ref n => by simp [inlineRefs, List.lookup]
  | fuel + 1, .not f => by simp only [inlineRefs, inlineRefs_nil fuel f]
  | fuel + 1, .quant q vs f => by simp only [inlineRefs, inlineRefs_nil fuel f]
  | fuel + 1, .cntConst op fs n => by simp only [inlineRefs, inlineRefsL_nil fuel fs]
  | fuel + 1, .cntVar op l r => by simp only [inlineRefs, inlineRefsL_nil fuel l, inlineRefsL_nil fuel r]
  | fuel + 1, .fix x i f => by simp only [inlineRefs, inlineRefs_nil fuel f]
  | fuel + 1, .ite a b c => by simp only [inlineRefs, inlineRefs_nil fuel a, inlineRefs_nil fuel b, inlineRefs_nil fuel c]
  | fuel + 1, .bin op l r => by simp only [inlineRefs, inlineRefs_nil fuel l, inlineRefs_nil fuel r]
  | fuel + 1, .var _ => rfl
  | fuel + 1, .true_ => rfl
  | fuel + 1, .false_ => rfl
  | fuel + 1, .subtree _ => rfl
theorem inlineRefsL_nil : ∀ (fuel : Nat) (fs : List Formula), inlineRefsL [] fuel fs = fs
  | 0, fs => by cases fs <;> rfl
  | fuel + 1, [] => rfl
  | fuel + 1, f :: fs => by simp only [inlineRefsL, inlineRefs_nil fuel f, inlineRefsL_nil fuel fs]
end

/-- evaluation under an empty definition table is plain evaluation -/
theorem evalDefs_nil (unfold iters fuel : Nat) (f : Formula) : evalDefs [] unfold iters fuel f = evalF iters fuel f := by
  simp [evalDefs, inlineRefs_nil]

/-- formula evaluations that share a `ParsedFormula` with definitions: whatever an evaluation returns is the
canonical diagram of the formula with its current definitions written in place — it does not depend on
what was evaluated or defined before (the model `evalDefs` is a function of the current definitions only) -/
theorem evalDefs_sound (defs : List (String × Formula)) (unfold iters fuel : Nat) (f : Formula) (b : BDD)
    (hg : GoodF (inlineRefs defs unfold f)) (h : evalDefs defs unfold iters fuel f = some b) :
    BDD.ROBDD b ∧ ∀ σ, (BDD.eval b σ = true ↔ Sem (inlineRefs defs unfold f) FEnv.empty σ) :=
  C01.evalF_sound iters fuel _ hg b h

end Rsbdd.C13
