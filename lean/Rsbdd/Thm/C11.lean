/-
C11 — variable ordering changes the shape of the answer, never its meaning.

PROVED (about the tokenizer's numbering, for every text and ordering):
 * `ids_injective`: within one text equal names get equal ids and different names different
   ids, for every ordering whose ids are distinct per name — so the formula over ids is the
   formula over names up to an injective renaming;
 * `listed_keep_ids` / `unlisted_after`: a name listed in the ordering carries the listed id,
   every other name is numbered above all listed ids — "variables listed in the file are
   ordered as in the file";
 * `readOrdering_ok`: what the tool reads from an ordering file (any text: duplicates,
   punctuation, keywords, numbers) is an ordering with distinct ids per name, numbered in
   order of first listing.
Together with `Thm/C01` (the diagram denotes the formula over ids) and `Thm/C02` (ordered by
id) the answer under any ordering denotes the formula under that numbering.

 * `meaning_invariant` (the FULL STATEMENT of the first sentence): for one text under two orderings
   (each with distinct ids per name), the two answers take the same value under assignments that read
   every variable's value from its *name* — "the answer denotes the same function of the same named
   variables".  Proof: the two token lists differ only in ids (`tokenize_lockstep`), the ids
   correspond one-to-one (`ids_injective` twice), the correspondence extends to a bijection of all
   ids (`exists_bij_of_pairs`), the grammar does not look at ids so the second tree is the first
   one renamed (`sub_rename` + parser completeness), and the documented meaning is invariant under
   renaming all ids, bound ones included (`sem_rename`); both answers denote their trees (C01).

 * `table_order_iso` / `export_reimport` (`Thm/C11E.lean`): two orderings that put the text's variables
   in the same relative order give the identical variable list, header, rows and `-v` lines; in
   particular the ordering exported with `-r` (name k ↦ id k) reproduces the table.  (The second
   diagram is the first one renamed, by canonicity; the renaming is increasing, so columns, header and
   row order are unchanged.)

Not proved: that reading the exported *text* back gives name k ↦ id k (a statement about `scan` on the
printed names); the correspondence run does the round trip through the real binary.
-/
import Rsbdd.Proofs.VarIds
import Rsbdd.Model.Cli
import Rsbdd.Proofs.Rename
import Rsbdd.Proofs.TableTotal
import Rsbdd.Proofs.Termination
import Rsbdd.Thm.C01

namespace Rsbdd.C11

theorem ids_injective {cs : List Ch} {ord : List (String × Nat)} {ts : List Token}
    (hord : OrderingOk ord) (h : tokenize cs ord = some ts) :
    ∀ n₁ id₁ n₂ id₂, Token.var n₁ id₁ ∈ ts → Token.var n₂ id₂ ∈ ts → (n₁ = n₂ ↔ id₁ = id₂) :=
  tokenize_ids_injective hord h

theorem unlisted_after {cs : List Ch} {ord : List (String × Nat)} {ts : List Token}
    (hord : OrderingOk ord) (h : tokenize cs ord = some ts) :
    ∀ n id, Token.var n id ∈ ts → (n, id) ∈ ord ∨ ∀ q ∈ ord, q.2 < id :=
  tokenize_unlisted_after hord h

/-- a listed name carries exactly the listed id -/
theorem listed_keep_ids {cs : List Ch} {ord : List (String × Nat)} {ts : List Token}
    (hord : OrderingOk ord) (h : tokenize cs ord = some ts) :
    ∀ n id id', Token.var n id ∈ ts → (n, id') ∈ ord → id = id' := by
  intro n id id' hv hl
  rcases tokenize_unlisted_after hord h n id hv with hin | hab
  · exact ((hord _ hin _ hl).mp rfl)
  · -- `n` would be both listed and numbered above every listed id: the table lookup excludes it
    -- (the pre-loaded table contains (n, id'); `ids_injective` on the final table)
    simp only [tokenize, Option.map_eq_some_iff] at h
    obtain ⟨body, hb, rfl⟩ := h
    obtain ⟨M, hsub, hinj, _, hmem⟩ := toTokens_table _ _ _ (scan_symsOk _ _) (preload_inv hord) hb
    have m1 := hmem n id (by simpa using hv)
    -- (n, id') survives the pre-load for some id'' with the same name; by OrderingOk id'' = id'
    have hpre : ∃ i, (n, i) ∈ (VarTable.preload ord).map := by
      have : ∀ (ord : List (String × Nat)) (vt : VarTable), (∃ i, (n, i) ∈ ord) ∨ (∃ i, (n, i) ∈ vt.map) →
          ∃ i, (n, i) ∈ (ord.foldl (fun t (x : String × Nat) =>
            { map := (x.1, x.2) :: t.map.filter (fun p => p.1 != x.1),
              counter := if x.2 ≥ t.counter then x.2 + 1 else t.counter : VarTable }) vt).map := by
        intro ord
        induction ord with
        | nil => intro vt hh; rcases hh with ⟨i, hi⟩ | hh; simp at hi; exact hh
        | cons x xs ih =>
          intro vt hh
          simp only [List.foldl_cons]
          apply ih
          rcases hh with ⟨i, hi⟩ | ⟨i, hi⟩
          · simp at hi
            rcases hi with rfl | hi
            · right; exact ⟨i, by simp⟩
            · left; exact ⟨i, hi⟩
          · right
            by_cases hx : x.1 = n
            · exact ⟨x.2, by simp [← hx]⟩
            · exact ⟨i, by simp; right; exact ⟨hi, fun e => hx e.symm⟩⟩
      exact this ord {} (Or.inl ⟨id', hl⟩)
    obtain ⟨i, hi⟩ := hpre
    have hiM := hsub _ hi
    have e1 : id = i := (hinj _ m1 _ hiM).mp rfl
    have hi_ord : (n, i) ∈ ord := by
      have := (preload_inv_aux ord {} (by intro p hp; simp at hp) _ hi).1
      simpa using this
    have := hab _ hi_ord
    simp at this; omega

/-- reading an ordering file yields distinct ids per name -/
theorem readOrdering_ok {text : List Ch} {ord : List (String × Nat)}
    (h : Cli.readOrdering text = some ord) : OrderingOk ord := by
  simp only [Cli.readOrdering, Option.map_eq_some_iff] at h
  obtain ⟨ts, ht, rfl⟩ := h
  have hnil : OrderingOk ([] : List (String × Nat)) := fun p hp => by simp at hp
  have hinj := tokenize_ids_injective hnil ht
  -- members of extractVars are `Var` tokens of the list
  have hmem : ∀ p ∈ Parser.extractVars ts, Token.var p.1 p.2 ∈ ts := by
    have : ∀ (ts' : List Token) (acc : List (String × Nat)),
        (∀ p ∈ acc, Token.var p.1 p.2 ∈ ts) → (∀ t ∈ ts', t ∈ ts) →
        ∀ p ∈ ts'.foldl (fun acc t => match t with
          | .var n id => if acc.any (fun p => p.2 == id) then acc else acc ++ [(n, id)]
          | _ => acc) acc, Token.var p.1 p.2 ∈ ts := by
      intro ts'
      induction ts' with
      | nil => intro acc ha _ p hp; exact ha p hp
      | cons t ts' ih =>
        intro acc ha hsub p hp
        simp only [List.foldl_cons] at hp
        refine ih _ ?_ (fun t' ht' => hsub t' (by simp [ht'])) p hp
        intro q hq
        cases t <;> try exact ha q hq
        rename_i n id
        simp only at hq
        split at hq
        · exact ha q hq
        · simp at hq
          rcases hq with hq | rfl
          · exact ha q hq
          · exact hsub _ (by simp)
    exact this ts [] (fun p hp => by simp at hp) (fun t ht => ht)
  intro p hp q hq
  exact hinj p.1 p.2 q.1 q.2 (hmem p hp) (hmem q hq)

-- non-vacuity: an ordering that reverses two names and lists an unused one
example : tokenize [⟨'a', .word⟩, ⟨'&', .other⟩, ⟨'b', .word⟩, ⟨'&', .other⟩, ⟨'c', .word⟩] [("b", 0), ("zz", 1), ("a", 2)] =
    some [.var "a" 2, .and, .var "b" 0, .and, .var "c" 3, .eof] := by rfl


open BDD Formula Parser Grammar

/-- the pairs (id under the first ordering, id under the second ordering) of the text's variable names -/
def idPairs (ts1 ts2 : List Token) : List (Nat × Nat) :=
  ts1.flatMap (fun t => match t with
    | .var n i => ts2.filterMap (fun t2 => match t2 with
      | .var n' j => if n = n' then some (i, j) else none
      | _ => none)
    | _ => [])

theorem mem_idPairs {ts1 ts2 : List Token} {i j : Nat} :
    (i, j) ∈ idPairs ts1 ts2 ↔ ∃ n, Token.var n i ∈ ts1 ∧ Token.var n j ∈ ts2 := by
  simp only [idPairs, List.mem_flatMap]
  constructor
  · rintro ⟨t, ht, h⟩
    cases t <;> simp at h
    rename_i n i'
    obtain ⟨t2, ht2, h2⟩ := h
    cases t2 <;> simp at h2
    rename_i n' j'
    obtain ⟨rfl, rfl, rfl⟩ := h2
    exact ⟨n, ht, ht2⟩
  · rintro ⟨n, h1, h2⟩
    refine ⟨_, h1, ?_⟩
    simp only [List.mem_filterMap]
    exact ⟨_, h2, by simp⟩

/-- C11, the meaning: whatever the two orderings, the two answers denote the same function of the
same named variables.  `ν` gives a truth value to every name; `σ₁`, `σ₂` are any assignments of ids
that read a variable's value from its name under the respective numbering. -/
theorem meaning_invariant {cs : List Ch} {o1 o2 : List (String × Nat)} {ts1 ts2 : List Token}
    {f1 f2 : Formula} {b1 b2 : BDD} {i1 u1 i2 u2 : Nat}
    (ho1 : OrderingOk o1) (ho2 : OrderingOk o2)
    (ht1 : tokenize cs o1 = some ts1) (ht2 : tokenize cs o2 = some ts2)
    (hp1 : parseFormula ts1 = some f1) (hp2 : parseFormula ts2 = some f2)
    (hg1 : GoodF f1) (hg2 : GoodF f2)
    (he1 : evalF i1 u1 f1 = some b1) (he2 : evalF i2 u2 f2 = some b2)
    (ν : String → Bool) (σ1 σ2 : Asg)
    (h1 : ∀ n i, Token.var n i ∈ ts1 → σ1 i = ν n) (h2 : ∀ n j, Token.var n j ∈ ts2 → σ2 j = ν n) :
    eval b1 σ1 = eval b2 σ2 := by
  have hinj1 := tokenize_ids_injective ho1 ht1
  have hinj2 := tokenize_ids_injective ho2 ht2
  -- the correspondence of ids extends to a bijection
  obtain ⟨π, hπ⟩ := exists_bij_of_pairs (idPairs ts1 ts2) (by
    rintro ⟨i, j⟩ hp ⟨i', j'⟩ hq
    obtain ⟨n, a1, a2⟩ := mem_idPairs.mp hp
    obtain ⟨n', b1, b2⟩ := mem_idPairs.mp hq
    exact (hinj1 n i n' i' a1 b1).symm.trans (hinj2 n j n' j' a2 b2))
  have hπ' : ∀ n i j, Token.var n i ∈ ts1 → Token.var n j ∈ ts2 → π.f i = j :=
    fun n i j a b => hπ (i, j) (mem_idPairs.mpr ⟨n, a, b⟩)
  -- the second token list is the first one renamed
  have hts : ts2 = ts1.map (renTok π.f) := map_renTok_of_lockstep π.f ts1 ts2 (tokenize_lockstep ht1 ht2) hπ'
  -- hence the second tree is the first one renamed
  obtain ⟨pre, hpre, hsub⟩ := parse_text_sound ht1 hp1
  have hd2 : Derives ts2 (renameF π.f f1) := by
    refine ⟨pre.map (renTok π.f), ?_, sub_rename π.f hsub⟩
    rw [hts, hpre]; simp [renTok]
  have hf2 : f2 = renameF π.f f1 := by
    have := parseFormula_complete hd2
    rw [hp2] at this; exact Option.some.inj this
  have hnl := sub_noLeaf hsub
  -- the first answer only looks at ids of the text
  have hsupp : ∀ z ∈ support b1, ∃ n, Token.var n z ∈ ts1 := by
    intro z hz
    have hfv := ((support_free_aux i1 u1).1 f1 b1 (ordLeaves_of_noLeaf f1 hnl) he1).2 z hz
    obtain ⟨n, hn⟩ := sub_fv_tok z hsub hfv
    exact ⟨n, by rw [hpre]; simp [hn]⟩
  have e1 : eval b1 σ1 = eval b1 (fun v => σ2 (π.f v)) := by
    apply eval_congr_support
    intro z hz
    obtain ⟨n, hn⟩ := hsupp z hz
    -- the same name has some id under the second ordering
    have : ∃ j, Token.var n j ∈ ts2 := by
      rw [hts]
      exact ⟨π.f z, List.mem_map.mpr ⟨_, hn, rfl⟩⟩
    obtain ⟨j, hj⟩ := this
    rw [h1 n z hn, hπ' n z j hn hj, h2 n j hj]
  have s1 := (C01.evalF_sound i1 u1 f1 hg1 b1 he1).2 (fun v => σ2 (π.f v))
  have s2 := (C01.evalF_sound i2 u2 f2 hg2 b2 he2).2 σ2
  have sr := sem_rename π f1 hnl FEnv.empty σ2
  rw [trEnv_empty, ← hf2] at sr
  rw [e1, Bool.eq_iff_iff]
  exact s1.trans (sr.symm.trans s2.symm)


end Rsbdd.C11
