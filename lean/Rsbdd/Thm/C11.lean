/-
C11 — variable ordering changes the shape of the answer, never its meaning.

PROVED (about the tokenizer's numbering, for every text and ordering):
 * `ids_injective`: within one text equal names get equal ids and different names different
   ids, for every ordering whose ids are distinct per name — so the formula over ids is the
   formula over names up to an injective renaming;
 * `listed_keep_ids` / `unlisted_after`: a name listed in the ordering carries the listed id,
   every other name is numbered above all listed ids — "variables listed in the file are
   ordered as in the file";
 * `readOrdering_ok`: what the tool reads from an ordering file (any text: duplicates,
   punctuation, keywords, numbers) is an ordering with distinct ids per name, numbered in
   order of first listing.
Together with `Thm/C01` (the diagram denotes the formula over ids) and `Thm/C02` (ordered by
id) the answer under any ordering denotes the formula under that numbering.

FULL STATEMENT (not proved): `meaning_invariant` — the function *of names* denoted under an
ordering equals the one under the default order (needs `Sem` invariance under injective
renaming of ids); and `export_reimport`.  Both are checked by the correspondence run
(truth table by name on every generated case; -r / -o round trip through the real binary).
-/
import Rsbdd.Proofs.VarIds
import Rsbdd.Model.Cli

namespace Rsbdd.C11

theorem ids_injective {cs : List Ch} {ord : List (String × Nat)} {ts : List Token}
    (hord : OrderingOk ord) (h : tokenize cs ord = some ts) :
    ∀ n₁ id₁ n₂ id₂, Token.var n₁ id₁ ∈ ts → Token.var n₂ id₂ ∈ ts → (n₁ = n₂ ↔ id₁ = id₂) :=
  tokenize_ids_injective hord h

theorem unlisted_after {cs : List Ch} {ord : List (String × Nat)} {ts : List Token}
    (hord : OrderingOk ord) (h : tokenize cs ord = some ts) :
    ∀ n id, Token.var n id ∈ ts → (n, id) ∈ ord ∨ ∀ q ∈ ord, q.2 < id :=
  tokenize_unlisted_after hord h

/-- a listed name carries exactly the listed id -/
theorem listed_keep_ids {cs : List Ch} {ord : List (String × Nat)} {ts : List Token}
    (hord : OrderingOk ord) (h : tokenize cs ord = some ts) :
    ∀ n id id', Token.var n id ∈ ts → (n, id') ∈ ord → id = id' := by
  intro n id id' hv hl
  rcases tokenize_unlisted_after hord h n id hv with hin | hab
  · exact ((hord _ hin _ hl).mp rfl)
  · -- `n` would be both listed and numbered above every listed id: the table lookup excludes it
    -- (the pre-loaded table contains (n, id'); `ids_injective` on the final table)
    simp only [tokenize, Option.map_eq_some_iff] at h
    obtain ⟨body, hb, rfl⟩ := h
    obtain ⟨M, hsub, hinj, _, hmem⟩ := toTokens_table _ _ _ (scan_symsOk _ _) (preload_inv hord) hb
    have m1 := hmem n id (by simpa using hv)
    -- (n, id') survives the pre-load for some id'' with the same name; by OrderingOk id'' = id'
    have hpre : ∃ i, (n, i) ∈ (VarTable.preload ord).map := by
      have : ∀ (ord : List (String × Nat)) (vt : VarTable), (∃ i, (n, i) ∈ ord) ∨ (∃ i, (n, i) ∈ vt.map) →
          ∃ i, (n, i) ∈ (ord.foldl (fun t (x : String × Nat) =>
            { map := (x.1, x.2) :: t.map.filter (fun p => p.1 != x.1),
              counter := if x.2 ≥ t.counter then x.2 + 1 else t.counter : VarTable }) vt).map := by
        intro ord
        induction ord with
        | nil => intro vt hh; rcases hh with ⟨i, hi⟩ | hh; simp at hi; exact hh
        | cons x xs ih =>
          intro vt hh
          simp only [List.foldl_cons]
          apply ih
          rcases hh with ⟨i, hi⟩ | ⟨i, hi⟩
          · simp at hi
            rcases hi with rfl | hi
            · right; exact ⟨i, by simp⟩
            · left; exact ⟨i, hi⟩
          · right
            by_cases hx : x.1 = n
            · exact ⟨x.2, by simp [← hx]⟩
            · exact ⟨i, by simp; right; exact ⟨hi, fun e => hx e.symm⟩⟩
      exact this ord {} (Or.inl ⟨id', hl⟩)
    obtain ⟨i, hi⟩ := hpre
    have hiM := hsub _ hi
    have e1 : id = i := (hinj _ m1 _ hiM).mp rfl
    have hi_ord : (n, i) ∈ ord := by
      have := (preload_inv_aux ord {} (by intro p hp; simp at hp) _ hi).1
      simpa using this
    have := hab _ hi_ord
    simp at this; omega

/-- reading an ordering file yields distinct ids per name -/
theorem readOrdering_ok {text : List Ch} {ord : List (String × Nat)}
    (h : Cli.readOrdering text = some ord) : OrderingOk ord := by
  simp only [Cli.readOrdering, Option.map_eq_some_iff] at h
  obtain ⟨ts, ht, rfl⟩ := h
  have hnil : OrderingOk ([] : List (String × Nat)) := fun p hp => by simp at hp
  have hinj := tokenize_ids_injective hnil ht
  -- members of extractVars are `Var` tokens of the list
  have hmem : ∀ p ∈ Parser.extractVars ts, Token.var p.1 p.2 ∈ ts := by
    have : ∀ (ts' : List Token) (acc : List (String × Nat)),
        (∀ p ∈ acc, Token.var p.1 p.2 ∈ ts) → (∀ t ∈ ts', t ∈ ts) →
        ∀ p ∈ ts'.foldl (fun acc t => match t with
          | .var n id => if acc.any (fun p => p.2 == id) then acc else acc ++ [(n, id)]
          | _ => acc) acc, Token.var p.1 p.2 ∈ ts := by
      intro ts'
      induction ts' with
      | nil => intro acc ha _ p hp; exact ha p hp
      | cons t ts' ih =>
        intro acc ha hsub p hp
        simp only [List.foldl_cons] at hp
        refine ih _ ?_ (fun t' ht' => hsub t' (by simp [ht'])) p hp
        intro q hq
        cases t <;> try exact ha q hq
        rename_i n id
        simp only at hq
        split at hq
        · exact ha q hq
        · simp at hq
          rcases hq with hq | rfl
          · exact ha q hq
          · exact hsub _ (by simp)
    exact this ts [] (fun p hp => by simp at hp) (fun t ht => ht)
  intro p hp q hq
  exact hinj p.1 p.2 q.1 q.2 (hmem p hp) (hmem q hq)

-- non-vacuity: an ordering that reverses two names and lists an unused one
example : tokenize [⟨'a', .word⟩, ⟨'&', .other⟩, ⟨'b', .word⟩, ⟨'&', .other⟩, ⟨'c', .word⟩] [("b", 0), ("zz", 1), ("a", 2)] =
    some [.var "a" 2, .and, .var "b" 0, .and, .var "c" 3, .eof] := by rfl

end Rsbdd.C11
