/-
C01 — evaluating a formula yields exactly its documented truth function.

`Sem` (Spec/Sem.lean) is the documented meaning, written independently of the evaluator.
`evalF` (Model/Formula.lean) mirrors `eval_recursive` including the substitution-based
fixed-point loop.  The theorem covers every formula — any nesting depth, any mix of
constructs, names reused as bound and free — whose fixed-point bodies are monotone in
their bound name (`GoodF`; `goodF_of_posFix` gives a syntactic criterion), and every
assignment.  `evalF_sound` is the partial-correctness statement: *if* the evaluator returns, the
answer is right.  Termination for fixed-point-free formulas is `evalF_total_nofix`; termination
in general (monotone fixed points) is `C06.evalF_total` (`Proofs/Termination.lean`), which
imports this file.
The text-level statement composes with `Thm/C08` (parser).
-/
import Rsbdd.Proofs.Positive
import Rsbdd.Proofs.FreeVars

namespace Rsbdd.C01
open BDD Formula

/-- whatever the evaluator returns is an ordered reduced diagram that is true under an
assignment exactly when the formula is, according to the documented meaning -/
theorem evalF_sound (iters fuel : Nat) (f : Formula) (hf : GoodF f) (b : BDD)
    (h : evalF iters fuel f = some b) :
    ROBDD b ∧ ∀ σ, (eval b σ = true ↔ Sem f FEnv.empty σ) :=
  (evalF_sound_aux iters fuel).1 f b hf h

/-- the answer is the constant true exactly for valid formulas -/
theorem evalF_valid (iters fuel : Nat) (f : Formula) (hf : GoodF f) (b : BDD)
    (h : evalF iters fuel f = some b) : b = T ↔ ∀ σ, Sem f FEnv.empty σ := by
  obtain ⟨hr, hs⟩ := evalF_sound iters fuel f hf b h
  constructor
  · intro e σ; exact (hs σ).mp (by rw [e]; rfl)
  · intro hv; exact const_true_of_robdd hr.1 hr.2 (fun σ => (hs σ).mpr (hv σ))

/-- the answer is the constant false exactly for unsatisfiable formulas -/
theorem evalF_unsat (iters fuel : Nat) (f : Formula) (hf : GoodF f) (b : BDD)
    (h : evalF iters fuel f = some b) : b = F ↔ ∀ σ, ¬ Sem f FEnv.empty σ := by
  obtain ⟨hr, hs⟩ := evalF_sound iters fuel f hf b h
  constructor
  · intro e σ hsem; have := (hs σ).mpr hsem; rw [e] at this; simp at this
  · intro hv
    apply const_false_of_robdd hr.1 hr.2
    intro σ
    cases hx : eval b σ
    · rfl
    · exact absurd ((hs σ).mp hx) (hv σ)

mutual
/-- every fixed-point body mentions its bound name only positively -/
def PosFix : Formula → Prop
  | .not f => PosFix f
  | .quant _ _ f => PosFix f
  | .cntConst _ fs _ => PosFixL fs
  | .cntVar _ l r => PosFixL l ∧ PosFixL r
  | .fix x _ t => PosFix t ∧ Pos x t
  | .ite c t e => PosFix c ∧ PosFix t ∧ PosFix e
  | .bin _ l r => PosFix l ∧ PosFix r
  | .subtree b => ROBDD b
  | .false_ => True
  | .true_ => True
  | .var _ => True
  | .ref _ => True
def PosFixL : List Formula → Prop
  | [] => True
  | f :: fs => PosFix f ∧ PosFixL fs
end

mutual
/-- the syntactic criterion implies the hypothesis of the soundness theorem -/
theorem goodF_of_posFix : ∀ f : Formula, PosFix f → GoodF f
  | .not f, h => by simp only [GoodF]; exact goodF_of_posFix f h
  | .quant _ _ f, h => by simp only [GoodF]; exact goodF_of_posFix f h
  | .cntConst _ fs _, h => by simp only [GoodF]; exact goodFL_of_posFixL fs h
  | .cntVar _ l r, h => by
    simp only [GoodF]; exact ⟨goodFL_of_posFixL l h.1, goodFL_of_posFixL r h.2⟩
  | .fix x _ t, h => by
    simp only [GoodF]; exact ⟨goodF_of_posFix t h.1, fun ρ => monoFn_of_pos h.2 ρ⟩
  | .ite c t e, h => by
    simp only [GoodF]
    exact ⟨goodF_of_posFix c h.1, goodF_of_posFix t h.2.1, goodF_of_posFix e h.2.2⟩
  | .bin _ l r, h => by simp only [GoodF]; exact ⟨goodF_of_posFix l h.1, goodF_of_posFix r h.2⟩
  | .subtree _, h => by simp only [GoodF]; exact h
  | .false_, _ => by simp [GoodF]
  | .true_, _ => by simp [GoodF]
  | .var _, _ => by simp [GoodF]
  | .ref _, _ => by simp [GoodF]
theorem goodFL_of_posFixL : ∀ fs : List Formula, PosFixL fs → GoodFL fs
  | [], _ => by simp [GoodFL]
  | f :: fs, h => by simp only [GoodFL]; exact ⟨goodF_of_posFix f h.1, goodFL_of_posFixL fs h.2⟩
end

mutual
def NoFix : Formula → Prop
  | .not f => NoFix f
  | .quant _ _ f => NoFix f
  | .cntConst _ fs _ => NoFixL fs
  | .cntVar _ l r => NoFixL l ∧ NoFixL r
  | .fix _ _ _ => False
  | .ite c t e => NoFix c ∧ NoFix t ∧ NoFix e
  | .bin _ l r => NoFix l ∧ NoFix r
  | _ => True
def NoFixL : List Formula → Prop
  | [] => True
  | f :: fs => NoFix f ∧ NoFixL fs
end

theorem evalF_fuel_mono_aux (iters : Nat) : ∀ fuel : Nat,
    (∀ f b, evalF iters fuel f = some b → evalF iters (fuel + 1) f = some b) ∧
    (∀ fs bs, evalFL iters fuel fs = some bs → evalFL iters (fuel + 1) fs = some bs) := by
  intro fuel
  induction fuel with
  | zero => exact ⟨fun f b h => by simp [evalF] at h, fun fs bs h => by simp [evalFL] at h⟩
  | succ n ih =>
    obtain ⟨ihF, ihL⟩ := ih
    constructor
    · intro f b h
      cases f with
      | false_ => simpa [evalF] using h
      | true_ => simpa [evalF] using h
      | var v => simpa [evalF] using h
      | ref _ => simpa [evalF] using h
      | subtree _ => simpa [evalF] using h
      | not g =>
        simp only [evalF, Option.map_eq_some_iff] at h ⊢
        obtain ⟨c, hc, rfl⟩ := h; exact ⟨c, ihF g c hc, rfl⟩
      | quant q vs g =>
        cases q <;> simp only [evalF, Option.map_eq_some_iff] at h ⊢ <;>
          (obtain ⟨c, hc, rfl⟩ := h; exact ⟨c, ihF g c hc, rfl⟩)
      | cntConst op fs k =>
        simp only [evalF, Option.map_eq_some_iff] at h ⊢
        obtain ⟨c, hc, rfl⟩ := h; exact ⟨c, ihL fs c hc, rfl⟩
      | cntVar op l r =>
        simp only [evalF] at h
        split at h
        · rename_i bl br hl hr
          cases h
          exact evalF_cntVar_some (ihL l bl hl) (ihL r br hr)
        · simp at h
      | ite c t e =>
        simp only [evalF] at h
        split at h
        · rename_i bc bt be hc ht he
          cases h
          exact evalF_ite_some (ihF c bc hc) (ihF t bt ht) (ihF e be he)
        · simp at h
      | bin op l r =>
        simp only [evalF] at h
        split at h
        · rename_i bl br hl hr
          cases h
          exact evalF_bin_some (ihF l bl hl) (ihF r br hr)
        · simp at h
      | fix x init t =>
        simp only [evalF] at h ⊢
        -- the loop with a transformer that is defined at least where the old one was, with the same values
        have key : ∀ k a s,
            fpLoop (fun y => evalF iters n (replaceVar x (.subtree y) t)) k a = some s →
            fpLoop (fun y => evalF iters (n + 1) (replaceVar x (.subtree y) t)) k a = some s := by
          intro k
          induction k with
          | zero => intro a s h; simp [fpLoop] at h
          | succ k ihk =>
            intro a s h
            simp only [fpLoop] at h ⊢
            split at h
            · simp at h
            · rename_i snew hs
              rw [ihF _ snew hs]
              split at h
              · rename_i he; simp [he]; simpa using h
              · rename_i he; simp [he]; exact ihk snew s h
        exact key iters _ b h
    · intro fs bs h
      cases fs with
      | nil => simpa [evalFL] using h
      | cons f fs =>
        simp only [evalFL] at h
        split at h
        · rename_i b bs' hb hbs
          cases h
          exact evalFL_cons_some (ihF f b hb) (ihL fs bs' hbs)
        · simp at h

theorem evalF_fuel_mono (iters : Nat) {fuel fuel' : Nat} (hle : fuel ≤ fuel') (f : Formula) (b : BDD)
    (h : evalF iters fuel f = some b) : evalF iters fuel' f = some b := by
  induction hle with
  | refl => exact h
  | step _ ih => exact (evalF_fuel_mono_aux iters _).1 f b ih

theorem evalFL_fuel_mono (iters : Nat) {fuel fuel' : Nat} (hle : fuel ≤ fuel') (fs : List Formula)
    (bs : List BDD) (h : evalFL iters fuel fs = some bs) : evalFL iters fuel' fs = some bs := by
  induction hle with
  | refl => exact h
  | step _ ih => exact (evalF_fuel_mono_aux iters _).2 fs bs ih

mutual
/-- termination, fixed-point-free part: the evaluator returns on every such formula -/
theorem evalF_total_nofix (iters : Nat) : ∀ f : Formula, NoFix f →
    ∃ b, evalF iters (depth f) f = some b
  | .false_, _ => ⟨BDD.mkConst false, by simp [depth, evalF]⟩
  | .true_, _ => ⟨BDD.mkConst true, by simp [depth, evalF]⟩
  | .var v, _ => ⟨BDD.var v, by simp [depth, evalF]⟩
  | .ref _, _ => ⟨BDD.mkConst false, by simp [depth, evalF]⟩
  | .subtree c, _ => ⟨c, by simp [depth, evalF]⟩
  | .not g, h => by
    obtain ⟨c, hc⟩ := evalF_total_nofix iters g h
    exact ⟨BDD.not c, by simp [depth, evalF, hc]⟩
  | .quant q vs g, h => by
    obtain ⟨c, hc⟩ := evalF_total_nofix iters g h
    cases q
    · exact ⟨BDD.exists_ vs c, by simp [depth, evalF, hc]⟩
    · exact ⟨BDD.all vs c, by simp [depth, evalF, hc]⟩
  | .cntConst op fs n, h => by
    obtain ⟨c, hc⟩ := evalFL_total_nofix iters fs h
    exact ⟨cntConstApply op c n, by simp [depth, evalF, hc]⟩
  | .cntVar op l r, h => by
    obtain ⟨c, hc⟩ := evalFL_total_nofix iters l h.1
    obtain ⟨d, hd⟩ := evalFL_total_nofix iters r h.2
    have h1 := evalFL_fuel_mono iters (Nat.le_max_left (depthL l) (depthL r)) l c hc
    have h2 := evalFL_fuel_mono iters (Nat.le_max_right (depthL l) (depthL r)) r d hd
    exact ⟨_, by simp only [depth]; exact evalF_cntVar_some h1 h2⟩
  | .ite c t e, h => by
    obtain ⟨bc, hc⟩ := evalF_total_nofix iters c h.1
    obtain ⟨bt, ht⟩ := evalF_total_nofix iters t h.2.1
    obtain ⟨be, he⟩ := evalF_total_nofix iters e h.2.2
    have h1 := evalF_fuel_mono iters (fuel' := max (depth c) (max (depth t) (depth e))) (by omega) c bc hc
    have h2 := evalF_fuel_mono iters (fuel' := max (depth c) (max (depth t) (depth e))) (by omega) t bt ht
    have h3 := evalF_fuel_mono iters (fuel' := max (depth c) (max (depth t) (depth e))) (by omega) e be he
    exact ⟨_, by simp only [depth]; exact evalF_ite_some h1 h2 h3⟩
  | .bin op l r, h => by
    obtain ⟨bl, hl⟩ := evalF_total_nofix iters l h.1
    obtain ⟨br, hr⟩ := evalF_total_nofix iters r h.2
    have h1 := evalF_fuel_mono iters (Nat.le_max_left (depth l) (depth r)) l bl hl
    have h2 := evalF_fuel_mono iters (Nat.le_max_right (depth l) (depth r)) r br hr
    exact ⟨_, by simp only [depth]; exact evalF_bin_some h1 h2⟩
  | .fix _ _ _, h => by simp [NoFix] at h
theorem evalFL_total_nofix (iters : Nat) : ∀ fs : List Formula, NoFixL fs →
    ∃ bs, evalFL iters (depthL fs) fs = some bs
  | [], _ => ⟨[], by simp [depthL, evalFL]⟩
  | f :: fs, h => by
    obtain ⟨b, hb⟩ := evalF_total_nofix iters f h.1
    obtain ⟨bs, hbs⟩ := evalFL_total_nofix iters fs h.2
    have h1 := evalF_fuel_mono iters (Nat.le_max_left (depth f) (depthL fs)) f b hb
    have h2 := evalFL_fuel_mono iters (Nat.le_max_right (depth f) (depthL fs)) fs bs hbs
    exact ⟨_, by simp only [depthL]; exact evalFL_cons_some h1 h2⟩
end

-- non-vacuity: a formula with a quantifier over a name that is also free, a counting
-- comparison and a (positive) fixed point satisfies the hypothesis and evaluates
example : GoodF (.bin .and (.var 0) (.quant .exists_ [0]
    (.fix 2 false (.bin .or (.var 2) (.cntConst .atLeast [.var 0, .var 1] 1))))) :=
  goodF_of_posFix _ (by simp [PosFix, PosFixL, Pos, PosL])

end Rsbdd.C01
