/-
C10 — the printed truth table is a faithful partition of the assignment space.

`Model/Cli.lean` mirrors the two printing recursions and `main`'s option plumbing.
For every ordered diagram whose variables are among the columns (true of every evaluated
formula: `Thm/C02`, `Thm/C09`, `Thm/C12.toFreeIndex_total`) and every filter:
the rows are pairwise disjoint, every assignment whose value passes the filter is covered,
and a covering row shows the diagram's value (`rows_partition`); the True / False tables
are the Any table filtered (`rows_filter`); `-v` lists exactly the satisfying rows
(`trueVars_rows`); a `-m` cube prints exactly one satisfying row (`rows_of_cube`); the
filter spellings are exactly the documented ones (`filter_spellings`); the output does not
depend on `-b N` for N ≥ 1 (`run_benchmark_indep`) nor — the text being the only input of
`run` — on the channel it arrived through.  Composed with `Thm/C01` (the diagram denotes
the formula) this gives the property for every formula.

Not modelled: padding / column widths, stdin / file plumbing (the correspondence run
compares the three channels on the real binary).
-/
import Rsbdd.Proofs.Table
import Rsbdd.Proofs.ModelRetain

namespace Rsbdd.C10
open BDD Cli

def blank (cols : List Nat) : List Cell := cols.map (fun _ => Cell.any)

theorem blank_getD (cols : List Nat) (j : Nat) : (blank cols).getD j .any = .any := by
  simp only [blank, List.getD_eq_getElem?_getD, List.getElem?_map]
  cases cols[j]? <;> rfl

/-- the rows of `-t` are a partition: pairwise disjoint, covering, and showing the value -/
theorem rows_partition (cols : List Nat) (flt : Filter) (b : BDD) (hb : Ordered b)
    (hsup : ∀ v ∈ support b, v ∈ cols) :
    ∃ rs, tableRows cols flt b (blank cols) = some rs ∧
      (∀ σ, Filter.passes flt (eval b σ) = true → ∃ r ∈ rs, Covers r.cells cols σ) ∧
      (∀ r ∈ rs, ∀ σ, Covers r.cells cols σ → r.result = eval b σ ∧ Filter.passes flt r.result = true) ∧
      rs.Pairwise (fun r r' => ∀ σ, ¬ (Covers r.cells cols σ ∧ Covers r'.cells cols σ)) := by
  obtain ⟨rs, h, spec⟩ := tableRows_spec cols flt b 0 (blank cols) hb hsup (by simp [blank])
    (fun j _ => blank_getD cols j)
  refine ⟨rs, h, fun σ hp => spec.cover σ (fun i => ?_) hp, fun r hr σ hc => (spec.sound r hr σ hc).2, spec.disjoint⟩
  rw [blank_getD]; rfl

/-- with filter Any every assignment is covered exactly once (existence + disjointness) -/
theorem rows_cover_any (cols : List Nat) (b : BDD) (hb : Ordered b) (hsup : ∀ v ∈ support b, v ∈ cols) :
    ∃ rs, tableRows cols .any b (blank cols) = some rs ∧ ∀ σ, ∃ r ∈ rs, Covers r.cells cols σ ∧ r.result = eval b σ := by
  obtain ⟨rs, h, hc, hs, _⟩ := rows_partition cols .any b hb hsup
  exact ⟨rs, h, fun σ => by
    obtain ⟨r, hr, hcr⟩ := hc σ rfl
    exact ⟨r, hr, hcr, (hs r hr σ hcr).1⟩⟩

/-- the filtered tables are the unfiltered table with the other rows removed, in the same order -/
theorem rows_filter (cols : List Nat) (flt : Filter) : ∀ (b : BDD) (vars : List Cell),
    tableRows cols flt b vars =
      (tableRows cols .any b vars).map (fun rs => rs.filter (fun r => Filter.passes flt r.result)) := by
  intro b
  induction b with
  | F => intro vars; cases flt <;> simp [tableRows, Filter.passes]
  | T => intro vars; cases flt <;> simp [tableRows, Filter.passes]
  | node l s r ihl ihr =>
    intro vars
    simp only [tableRows]
    cases hc : colOf cols s with
    | none => simp
    | some i =>
      simp only [ihl, ihr]
      cases tableRows cols .any r (vars.set i .f) <;> cases tableRows cols .any l (vars.set i .t) <;> simp

def lineOfRow (names : List String) (r : Row) : List String := lineOf r.cells names

/-- `-v` lists exactly the satisfying rows of the table, in the same order: the variables
assigned True, and the unassigned ones starred -/
theorem trueVars_rows (cols : List Nat) (names : List String) : ∀ (b : BDD) (vals : List Cell),
    trueVarRows cols names b vals =
      (tableRows cols .true_ b vals).map (fun rs => rs.map (lineOfRow names)) := by
  intro b
  induction b with
  | F => intro vals; simp [trueVarRows, tableRows, Filter.passes]
  | T => intro vals; simp [trueVarRows, tableRows, Filter.passes, lineOfRow]
  | node l s r ihl ihr =>
    intro vals
    simp only [trueVarRows, tableRows]
    cases hc : colOf cols s with
    | none => simp
    | some i =>
      simp only [ihl, ihr]
      cases tableRows cols .true_ r (vals.set i .f) <;> cases tableRows cols .true_ l (vals.set i .t) <;> simp

/-- a cube (what `-m` leaves) prints exactly one satisfying row -/
theorem rows_of_cube (cols : List Nat) : ∀ (c : BDD) (vars : List Cell), IsCube c →
    (∀ v ∈ support c, v ∈ cols) → ∃ row, tableRows cols .true_ c vars = some [row] := by
  intro c
  induction c with
  | F => intro vars h; exact absurd h (by simp [IsCube])
  | T => intro vars _ _; exact ⟨⟨vars, true⟩, by simp [tableRows, Filter.passes]⟩
  | node t v f iht ihf =>
    intro vars h hsup
    obtain ⟨i, hi⟩ := colOf_of_mem (hsup v (by simp [support]))
    rcases h with ⟨hf, ht⟩ | ⟨ht, hf⟩
    · subst hf
      obtain ⟨row, hr⟩ := iht (vars.set i .t) ht (fun x hx => hsup x (by simp [support, hx]))
      exact ⟨row, by simp [tableRows, hi, hr, Filter.passes]⟩
    · subst ht
      obtain ⟨row, hr⟩ := ihf (vars.set i .f) hf (fun x hx => hsup x (by simp [support, hx]))
      exact ⟨row, by simp [tableRows, hi, hr, Filter.passes]⟩

/-- the accepted filter spellings are exactly the documented ones -/
theorem filter_spellings (s : String) :
    (filterOfString s = some .true_ ↔ s ∈ ["true", "True", "t", "T", "1"]) ∧
    (filterOfString s = some .false_ ↔ s ∈ ["false", "False", "f", "F", "0"]) ∧
    (filterOfString s = some .any ↔ s ∈ ["any", "Any", "a", "A", "*"]) := by
  unfold filterOfString
  refine ⟨?_, ?_, ?_⟩ <;>
  · constructor
    · intro h
      split at h
      · rename_i hc
        first
          | (injection h with h'; cases h'; done)
          | (simp at hc; rcases hc with (((hc | hc) | hc) | hc) | hc <;> simp [hc])
      · split at h
        · rename_i hc
          first
            | (injection h with h'; cases h'; done)
            | (simp at hc; rcases hc with (((hc | hc) | hc) | hc) | hc <;> simp [hc])
        · split at h
          · rename_i hc
            first
              | (injection h with h'; cases h'; done)
              | (simp at hc; rcases hc with (((hc | hc) | hc) | hc) | hc <;> simp [hc])
          · simp at h
    · intro h
      simp at h
      rcases h with h | h | h | h | h <;> subst h <;> decide

/-- the output does not depend on the benchmark repetition count (N ≥ 1) -/
theorem run_benchmark_indep (iters fuel : Nat) (text : List Ch) (ordering : Option (List Ch))
    (o : Options) (n : Nat) (hn : 1 ≤ n) :
    Cli.run iters fuel text ordering { o with benchmark := some n } =
      Cli.run iters fuel text ordering { o with benchmark := none } := by
  have h1 : ((some n : Option Nat).getD 1 == 0) = false := by
    simp; omega
  simp only [Cli.run, h1, Option.getD_none]
  rfl

-- non-vacuity: a three-column table
example : tableRows [0, 1, 2] .any (node (node T 2 F) 0 (node T 1 F)) (blank [0, 1, 2]) =
    some [⟨[.f, .f, .any], false⟩, ⟨[.f, .t, .any], true⟩, ⟨[.t, .any, .f], false⟩, ⟨[.t, .any, .t], true⟩] := by
  rfl

end Rsbdd.C10
