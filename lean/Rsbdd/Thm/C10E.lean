/-
C10, composed end to end with C01 (the diagram denotes the formula), C09/C12 (its variables
are columns) and the partition theorem: a statement about the text, not about a diagram.
-/
import Rsbdd.Thm.C10
import Rsbdd.Thm.C12
import Rsbdd.Thm.C01

namespace Rsbdd.C10
open BDD Cli Formula Parser

/-- End to end, for every text and ordering: if the text parses (`p`) and evaluates (`b`), the
rows `rsbdd -t` prints for it (no `-m`, no `-c`) are pairwise disjoint partial assignments
of the free variables; every assignment whose *documented truth value* passes the filter is
covered; and the result column of a covering row is the formula's documented truth value. -/
theorem table_faithful {cs : List Ch} {ord : List (String × Nat)} {ts : List Token} {p : ParsedInfo}
    {iters fuel : Nat} {b : BDD} (flt : Filter)
    (ht : tokenize cs ord = some ts) (hp : newWithEnv ts = some p) (hg : GoodF p.formula)
    (he : evalF iters fuel p.formula = some b) :
    let cols := p.freeVars.map (·.2)
    ∃ rs, tableRows cols flt b (blank cols) = some rs ∧
      (∀ σ (tv : Bool), (tv = true ↔ Sem p.formula FEnv.empty σ) → Filter.passes flt tv = true →
        ∃ r ∈ rs, Covers r.cells cols σ) ∧
      (∀ r ∈ rs, ∀ σ, Covers r.cells cols σ → (r.result = true ↔ Sem p.formula FEnv.empty σ)) ∧
      rs.Pairwise (fun r r' => ∀ σ, ¬ (Covers r.cells cols σ ∧ Covers r'.cells cols σ)) := by
  intro cols
  obtain ⟨hrob, hsem⟩ := C01.evalF_sound iters fuel p.formula hg b he
  -- every variable of the diagram is a column
  have hsup : ∀ v ∈ support b, v ∈ cols := by
    intro v hv
    have := C12.toFreeIndex_total ht hp he v hv
    simp only [toFreeIndex] at this
    rw [List.findIdx?_isSome] at this
    simp only [List.any_eq_true, beq_iff_eq] at this
    obtain ⟨q, hq, hqv⟩ := this
    simp only [cols, List.mem_map]
    exact ⟨q, hq, hqv⟩
  obtain ⟨rs, hrows, hcov, hsound, hdisj⟩ := rows_partition cols flt b hrob.1 hsup
  refine ⟨rs, hrows, ?_, ?_, hdisj⟩
  · intro σ tv htv hpass
    apply hcov σ
    have : eval b σ = tv := by
      cases hx : eval b σ <;> cases ht' : tv <;> try rfl
      · have := (hsem σ).mpr (htv.mp ht'); rw [hx] at this; simp at this
      · have := htv.mpr ((hsem σ).mp hx); rw [ht'] at this; simp at this
    rw [this]; exact hpass
  · intro r hr σ hc
    rw [(hsound r hr σ hc).1]
    exact hsem σ

end Rsbdd.C10
