/-
C20 — dropping forced choices (`-c`) is sound in the direction of the chosen filter.

The two implications need no hypothesis on `f`; order/reducedness/support need the
corresponding hypothesis on `f` (true of everything the library hands out, `Thm/C02`).
-/
import Rsbdd.Proofs.ModelRetain

namespace Rsbdd.C20
open BDD

/-- filter True: every satisfying assignment of `f` still satisfies the result -/
theorem retain_true (f : BDD) (σ : Asg) (h : eval f σ = true) :
    eval (retain f .true_) σ = true := eval_retainAux_true f σ h

/-- filter False: the result implies `f` -/
theorem retain_false (f : BDD) (σ : Asg) (h : eval (retain f .false_) σ = true) :
    eval f σ = true := eval_retainAux_false f σ h

/-- filter Any: `f` itself -/
theorem retain_any (f : BDD) : retain f .any = f := rfl

theorem retain_robdd {f : BDD} (hf : ROBDD f) (flt : Filter) : ROBDD (retain f flt) := by
  cases flt with
  | any => exact hf
  | true_ => exact ⟨ordFrom_retainAux _ hf.1, reduced_retainAux _ hf.2⟩
  | false_ => exact ⟨ordFrom_retainAux _ hf.1, reduced_retainAux _ hf.2⟩

theorem retain_support (f : BDD) (flt : Filter) : ∀ x ∈ support (retain f flt), x ∈ support f := by
  intro x h
  cases flt with
  | any => exact h
  | true_ => exact mem_support_retainAux _ h
  | false_ => exact mem_support_retainAux _ h

-- non-vacuity: a diagram on which `-c t` really drops a forced choice
example : retain (node (node T 3 F) 1 F) .true_ = node T 3 F := by
  simp [retain, retainAux, Filter.isTrue, isConst, isChoice, BDD.isTrue, mk]
example : retain (node T 1 (node T 3 F)) .false_ = node T 3 F := by
  simp [retain, retainAux, Filter.isTrue, isConst, isChoice, BDD.isTrue, mk]

end Rsbdd.C20
