/-
C18 — random_graph_gen outputs the graph that was asked for.

`Model/Gen/Graph.lean` mirrors the generator (after the `fix:` commit for `--complete 0`);
the shuffle is a parameter: any permutation of the candidate list.

PROVED, for every V, E, -u and every shuffle:
 * `mem_candidates`: the candidate edges are exactly the ordered pairs of distinct vertices
   below V (with -u: exactly the pairs a < b), each once (`candidates_nodup`);
 * `generate_spec`: if the request is granted the output has exactly E edges, pairwise
   distinct, between distinct vertices v0 … v(V-1), and with -u no pair in both orientations;
 * `generate_refuses`: it is refused (an error, nothing printed) exactly when E exceeds the
   number of candidate edges — never truncated;
 * `complete_all`: `--complete` yields every pair exactly once;
 * `convert_directed` / `convert_undirected_*`: `--convert` keeps the list; with -u it drops
   exactly the edges whose reverse was already kept.

 * `colouring_iff` (`--colors k`): the output graph (`aug_adj`: copies of different vertices are
   joined unless they have the same colour and the vertices are adjacent in either direction)
   has a clique covering every input vertex exactly when the input graph has a proper colouring
   with k colours; `isColouring_iff` ties `Colourable` to the test the correspondence run's
   brute-force oracle applies.  Self-loops in the input constrain nothing (the generator skips
   copies of the same vertex).

Assumption, not provable here: `rand::seq::SliceRandom::shuffle` returns a permutation of the
candidate list (the theorems quantify over every shuffled list; the correspondence run checks
each real output is a duplicate-free sublist of the candidates).  The order and orientation of
the `--colors` output follow an `FxHashMap` iteration order; the model fixes a canonical
orientation and the theorems and the comparison are orientation-free.
-/
import Rsbdd.Model.Gen.Graph

namespace Rsbdd.C18
open Gen.Graph

theorem mem_candidates (v : Nat) (u : Bool) (a b : Nat) :
    (a, b) ∈ candidates v u ↔ a < v ∧ b < v ∧ (if u then a < b else a ≠ b) := by
  simp only [candidates, List.mem_flatMap, List.mem_range]
  constructor
  · rintro ⟨i, hi, h⟩
    cases u
    · simp only [Bool.false_eq_true, if_false, List.mem_map, List.mem_filter, List.mem_range,
        decide_eq_true_eq, Prod.mk.injEq] at h ⊢
      obtain ⟨j, ⟨hj, hne⟩, rfl, rfl⟩ := h
      exact ⟨hi, hj, hne⟩
    · simp only [if_true, List.mem_map, Prod.mk.injEq] at h ⊢
      obtain ⟨j, hj, rfl, rfl⟩ := h
      have hj' := List.mem_of_mem_drop hj
      simp only [List.mem_range] at hj'
      refine ⟨hi, hj', ?_⟩
      -- elements of `drop (i+1) (range v)` are > i
      have : ∀ (l : List Nat) (k : Nat), (∀ x ∈ l, True) → True := fun _ _ _ => trivial
      have key : ∀ (n k x : Nat), x ∈ (List.range n).drop k → k ≤ x := by
        intro n k x hx
        rw [List.mem_iff_getElem] at hx
        obtain ⟨idx, hidx, hget⟩ := hx
        simp at hget hidx
        omega
      have := key v (i + 1) j hj
      omega
  · rintro ⟨ha, hb, h⟩
    refine ⟨a, ha, ?_⟩
    cases u
    · simp only [Bool.false_eq_true, if_false] at h ⊢
      simp only [List.mem_map, List.mem_filter, List.mem_range, decide_eq_true_eq, Prod.mk.injEq]
      exact ⟨b, ⟨hb, h⟩, by simp⟩
    · simp only [if_true] at h ⊢
      simp only [List.mem_map, Prod.mk.injEq]
      refine ⟨b, ?_, by simp⟩
      rw [List.mem_iff_getElem]
      refine ⟨b - (a + 1), by simp; omega, by simp; omega⟩

theorem candidates_nodup (v : Nat) (u : Bool) : (candidates v u).Nodup := by
  unfold candidates
  rw [List.nodup_iff_pairwise_ne, List.pairwise_flatMap]
  constructor
  · intro i _
    cases u
    · simp only [Bool.false_eq_true, if_false]
      apply List.Pairwise.map (R := (· ≠ ·))
      · intro a b hab h; simp at h; exact hab h
      · exact (List.nodup_range).filter _
    · simp only [if_true]
      apply List.Pairwise.map (R := (· ≠ ·))
      · intro a b hab h; simp at h; exact hab h
      · exact (List.drop_sublist _ _).nodup List.nodup_range
  · apply List.Pairwise.imp (R := (· ≠ ·)) _ List.nodup_range
    intro i j hij p hp q hq hpq
    have fst : ∀ (k : Nat) (r : Nat × Nat), r ∈ (if u = true then ((List.range v).drop (k + 1)).map (fun j => (k, j))
        else ((List.range v).filter (fun j => k ≠ j)).map (fun j => (k, j))) → r.1 = k := by
      intro k r hr
      cases u
      · simp only [Bool.false_eq_true, if_false, List.mem_map] at hr
        obtain ⟨_, _, rfl⟩ := hr; rfl
      · simp only [if_true, List.mem_map] at hr
        obtain ⟨_, _, rfl⟩ := hr; rfl
    have h1 : p.1 = i := fst i p hp
    have h2 : q.1 = j := fst j q hq
    rw [hpq] at h1; exact hij (h1.symm.trans h2)

/-- `generate`: granted iff there are enough candidates -/
theorem generate_refuses (shuffled : List (Nat × Nat)) (e : Nat) :
    generate shuffled e = none ↔ shuffled.length < e := by
  unfold generate; split <;> simp <;> omega

/-- what a granted request returns, for every shuffle of the candidate list -/
theorem generate_spec (v : Nat) (u : Bool) (shuffled : List (Nat × Nat)) (e : Nat) (es : List (Nat × Nat))
    (hperm : shuffled.Perm (candidates v u)) (hnd : (candidates v u).Nodup)
    (h : generate shuffled e = some es) :
    es.length = e ∧ es.Nodup ∧
      ∀ p ∈ es, p.1 ≠ p.2 ∧ p.1 < v ∧ p.2 < v ∧ (u = true → (p.2, p.1) ∉ es) := by
  unfold generate at h
  split at h
  · rename_i hle
    cases h
    have hsnd : shuffled.Nodup := hperm.nodup_iff.mpr hnd
    refine ⟨by simp [hle], (List.take_sublist e shuffled).nodup hsnd, ?_⟩
    intro p hp
    have hps : p ∈ shuffled := List.mem_of_mem_take hp
    have hpc : p ∈ candidates v u := hperm.mem_iff.mp hps
    obtain ⟨h1, h2, h3⟩ := (mem_candidates v u p.1 p.2).mp hpc
    refine ⟨?_, h1, h2, ?_⟩
    · cases u <;> simp at h3 <;> omega
    · intro hu hrev
      subst hu
      have hrc : (p.2, p.1) ∈ candidates v true := hperm.mem_iff.mp (List.mem_of_mem_take hrev)
      obtain ⟨_, _, h3'⟩ := (mem_candidates v true p.2 p.1).mp hrc
      simp at h3 h3'; omega
  · simp at h

/-- `--complete`: every pair, exactly once -/
theorem complete_all (v : Nat) (u : Bool) (shuffled : List (Nat × Nat)) (es : List (Nat × Nat))
    (hperm : shuffled.Perm (candidates v u))
    (h : generate shuffled (candidates v u).length = some es) :
    es.Perm (candidates v u) := by
  unfold generate at h
  split at h
  · cases h
    have : shuffled.length = (candidates v u).length := hperm.length_eq
    rw [← this, List.take_length]
    exact hperm
  · simp at h

/-- `--convert` without -u reproduces the list -/
theorem convert_directed (edges : List (String × String)) : readGraph edges false = edges := by
  unfold readGraph
  have : ∀ (es acc : List (String × String)),
      es.foldl (fun acc (x : String × String) => if false && acc.contains (x.2, x.1) then acc else acc ++ [(x.1, x.2)]) acc = acc ++ es := by
    intro es
    induction es with
    | nil => intro acc; simp
    | cons x xs ih =>
      intro acc
      simp only [List.foldl_cons, Bool.false_and, Bool.false_eq_true, if_false]
      have := ih (acc ++ [(x.1, x.2)])
      simp only [Bool.false_and, Bool.false_eq_true, if_false] at this
      rw [this]; simp
  simpa using this edges []

/-- with -u: everything kept comes from the input, and no kept edge has its reverse kept before it -/
theorem convert_undirected_sub (edges : List (String × String)) :
    ∀ p ∈ readGraph edges true, p ∈ edges := by
  unfold readGraph
  have : ∀ (es acc : List (String × String)) p,
      p ∈ es.foldl (fun acc (x : String × String) => if true && acc.contains (x.2, x.1) then acc else acc ++ [(x.1, x.2)]) acc →
      p ∈ acc ∨ p ∈ es := by
    intro es
    induction es with
    | nil => intro acc p h; exact Or.inl h
    | cons x xs ih =>
      intro acc p h
      simp only [List.foldl_cons] at h
      rcases ih _ p h with h' | h'
      · split at h'
        · exact Or.inl h'
        · simp at h'
          rcases h' with h' | rfl
          · exact Or.inl h'
          · exact Or.inr (by simp)
      · exact Or.inr (by simp [h'])
  intro p hp
  rcases this edges [] p hp with h | h
  · simp at h
  · exact h

/-- with -u an input edge is dropped only if its reverse is kept -/
theorem convert_undirected_complete (edges : List (String × String)) :
    ∀ p ∈ edges, p ∈ readGraph edges true ∨ (p.2, p.1) ∈ readGraph edges true := by
  unfold readGraph
  have mono : ∀ (es acc : List (String × String)) q, q ∈ acc →
      q ∈ es.foldl (fun acc (x : String × String) => if true && acc.contains (x.2, x.1) then acc else acc ++ [(x.1, x.2)]) acc := by
    intro es
    induction es with
    | nil => intro acc q h; exact h
    | cons x xs ih =>
      intro acc q h
      simp only [List.foldl_cons]
      apply ih
      split
      · exact h
      · simp [h]
  have : ∀ (es acc : List (String × String)) p, p ∈ es →
      p ∈ es.foldl (fun acc (x : String × String) => if true && acc.contains (x.2, x.1) then acc else acc ++ [(x.1, x.2)]) acc ∨
      (p.2, p.1) ∈ es.foldl (fun acc (x : String × String) => if true && acc.contains (x.2, x.1) then acc else acc ++ [(x.1, x.2)]) acc := by
    intro es
    induction es with
    | nil => intro acc p h; simp at h
    | cons x xs ih =>
      intro acc p h
      simp only [List.foldl_cons]
      simp at h
      rcases h with rfl | h
      · by_cases hc : acc.contains (p.2, p.1) = true
        · right
          apply mono
          simp only [hc, Bool.and_self, if_true]
          simpa using hc
        · left
          apply mono
          have hf : acc.contains (p.2, p.1) = false := by simpa using hc
          simp only [hf, Bool.and_false, Bool.false_eq_true, if_false]
          simp
      · exact ih _ p h
  intro p hp
  exact this edges [] p hp

-- non-vacuity
example : candidates 3 true = [(0, 1), (0, 2), (1, 2)] := by decide
example : candidates 3 false = [(0, 1), (0, 2), (1, 0), (1, 2), (2, 0), (2, 1)] := by decide
example : generate [(0, 1), (1, 2), (0, 2)] 4 = none := by decide
example : readGraph [("a", "b"), ("b", "a"), ("a", "b")] true = [("a", "b"), ("a", "b")] := by decide


/-! ### `--colors k` -/

theorem mem_dedupStr (xs : List String) (x : String) : x ∈ dedupStr xs ↔ x ∈ xs := by
  unfold dedupStr
  have key : ∀ (l acc : List String),
      x ∈ l.foldl (fun acc x => if acc.contains x then acc else acc ++ [x]) acc ↔ x ∈ acc ∨ x ∈ l := by
    intro l
    induction l with
    | nil => intro acc; simp
    | cons y ys ih =>
      intro acc
      rw [List.foldl_cons, ih]
      by_cases hc : acc.contains y = true
      · simp only [hc, if_true, List.mem_cons]
        have : y ∈ acc := by simpa using hc
        constructor
        · rintro (h | h); exact Or.inl h; exact Or.inr (Or.inr h)
        · rintro (h | rfl | h)
          · exact Or.inl h
          · exact Or.inl this
          · exact Or.inr h
      · simp only [hc, Bool.false_eq_true, if_false, List.mem_append, List.mem_cons, List.not_mem_nil, or_false]
        constructor
        · rintro ((h | rfl) | h)
          · exact Or.inl h
          · exact Or.inr (Or.inl rfl)
          · exact Or.inr (Or.inr h)
        · rintro (h | rfl | h)
          · exact Or.inl (Or.inl h)
          · exact Or.inl (Or.inr rfl)
          · exact Or.inr h
  simpa using key xs []

/-- the vertices of the input graph: the end-points of its edges -/
def verts (edges : List (String × String)) : List String := dedupStr (edges.flatMap (fun e => [e.1, e.2]))

theorem mem_verts (edges : List (String × String)) (v : String) :
    v ∈ verts edges ↔ ∃ e ∈ edges, v = e.1 ∨ v = e.2 := by
  simp [verts, mem_dedupStr, List.mem_flatMap]

/-- adjacency in the input graph: an edge in either direction -/
def GAdj (edges : List (String × String)) (v w : String) : Prop := (v, w) ∈ edges ∨ (w, v) ∈ edges

/-- the edges of the `--colors k` output, either orientation: copies of different vertices,
unless they have the same colour and the vertices are adjacent -/
theorem aug_adj (edges : List (String × String)) (k : Nat) (a b : String × Nat) :
    ((a, b) ∈ augmentColors edges k ∨ (b, a) ∈ augmentColors edges k) ↔
      (a.1 ∈ verts edges ∧ a.2 < k) ∧ (b.1 ∈ verts edges ∧ b.2 < k) ∧ a.1 ≠ b.1 ∧
      (a.2 ≠ b.2 ∨ ¬ GAdj edges a.1 b.1) := by
  have hcop : ∀ x : String × Nat,
      x ∈ (verts edges).flatMap (fun v => (List.range k).map (fun c => (v, c))) ↔ x.1 ∈ verts edges ∧ x.2 < k := by
    intro x
    simp only [List.mem_flatMap, List.mem_map, List.mem_range]
    constructor
    · rintro ⟨v, hv, c, hc, rfl⟩; exact ⟨hv, hc⟩
    · rintro ⟨hv, hc⟩; exact ⟨x.1, hv, x.2, hc, rfl⟩
  have hmem : ∀ x y : String × Nat, (x, y) ∈ augmentColors edges k ↔
      (x.1 ∈ verts edges ∧ x.2 < k) ∧ (y.1 ∈ verts edges ∧ y.2 < k) ∧
      (x.1 ≠ y.1 ∧ (x.1 < y.1 ∨ (x.1 = y.1 ∧ x.2 < y.2)) ∧
        (x.2 ≠ y.2 ∨ (!(edges.contains (x.1, y.1)) && !(edges.contains (y.1, x.1))) = true)) := by
    intro x y
    unfold augmentColors
    rw [List.mem_flatMap]
    simp only [List.mem_filterMap]
    constructor
    · rintro ⟨a', ha', b', hb', h⟩
      split at h
      · rename_i hc
        cases h
        exact ⟨(hcop _).mp (by simpa [verts] using ha'), (hcop _).mp (by simpa [verts] using hb'), hc⟩
      · cases h
    · rintro ⟨hx, hy, hc⟩
      exact ⟨x, by simpa [verts] using (hcop _).mpr hx, y, by simpa [verts] using (hcop _).mpr hy, by rw [if_pos hc]⟩
  have hnon : ∀ v w : String, ((!(edges.contains (v, w)) && !(edges.contains (w, v))) = true) ↔ ¬ GAdj edges v w := by
    intro v w; simp [GAdj, not_or]
  rw [hmem, hmem]
  constructor
  · rintro (⟨ha, hb, hne, _, hc⟩ | ⟨hb, ha, hne, _, hc⟩)
    · exact ⟨ha, hb, hne, hc.imp id (hnon _ _).mp⟩
    · refine ⟨ha, hb, fun e => hne e.symm, ?_⟩
      rcases hc with hc | hc
      · exact Or.inl (fun e => hc e.symm)
      · right; intro hg; exact (hnon _ _).mp hc (Or.symm hg)
  · rintro ⟨ha, hb, hne, hc⟩
    rcases String.le_total a.1 b.1 with hle | hle
    · left
      refine ⟨ha, hb, hne, Or.inl ?_, hc.imp id (hnon _ _).mpr⟩
      exact String.not_le.mp (fun h' => hne (String.le_antisymm hle h'))
    · right
      refine ⟨hb, ha, fun e => hne e.symm, Or.inl ?_, ?_⟩
      · exact String.not_le.mp (fun h' => hne (String.le_antisymm h' hle))
      · rcases hc with hc | hc
        · exact Or.inl (fun e => hc e.symm)
        · right; exact (hnon _ _).mpr (fun hg => hc (Or.symm hg))

/-- the input graph has a proper colouring with colours `0 … k-1` (a self-loop `a,a` in the
edge list constrains nothing: the generator skips copies of the same vertex) -/
def Colourable (edges : List (String × String)) (k : Nat) : Prop :=
  ∃ col : String → Nat, (∀ v ∈ verts edges, col v < k) ∧ ∀ e ∈ edges, e.1 ≠ e.2 → col e.1 ≠ col e.2

/-- a set of vertices of the output graph that is a clique and contains a copy of every input vertex -/
def CoverClique (edges : List (String × String)) (k : Nat) (S : List (String × Nat)) : Prop :=
  (∀ x ∈ S, x.1 ∈ verts edges ∧ x.2 < k) ∧
  (∀ v ∈ verts edges, ∃ c, (v, c) ∈ S) ∧
  (∀ x ∈ S, ∀ y ∈ S, x ≠ y → (x, y) ∈ augmentColors edges k ∨ (y, x) ∈ augmentColors edges k)

/-- C18, `--colors k`: the output graph has a clique covering every input vertex exactly when the
input graph is k-colourable -/
theorem colouring_iff (edges : List (String × String)) (k : Nat) :
    (∃ S, CoverClique edges k S) ↔ Colourable edges k := by
  constructor
  · rintro ⟨S, hsub, hcov, hcl⟩
    let col : String → Nat := fun v => match S.find? (fun x => x.1 == v) with
      | some x => x.2
      | none => 0
    have hcol : ∀ v ∈ verts edges, (v, col v) ∈ S := by
      intro v hv
      obtain ⟨c, hc⟩ := hcov v hv
      cases hf : S.find? (fun x => x.1 == v) with
      | none =>
        have := List.find?_eq_none.mp hf (v, c) hc
        simp at this
      | some x =>
        have h1 := List.find?_some hf
        have h2 := List.mem_of_find?_eq_some hf
        simp only [beq_iff_eq] at h1
        have : col v = x.2 := by simp only [col, hf]
        rw [this, ← h1]; exact h2
    refine ⟨col, fun v hv => (hsub _ (hcol v hv)).2, ?_⟩
    intro e he hl
    have h1 : e.1 ∈ verts edges := (mem_verts edges _).mpr ⟨e, he, Or.inl rfl⟩
    have h2 : e.2 ∈ verts edges := (mem_verts edges _).mpr ⟨e, he, Or.inr rfl⟩
    have hne : (e.1, col e.1) ≠ (e.2, col e.2) := fun h => hl (congrArg Prod.fst h)
    have := (aug_adj edges k _ _).mp (hcl _ (hcol _ h1) _ (hcol _ h2) hne)
    rcases this.2.2.2 with h | h
    · exact h
    · exact absurd (Or.inl (by simpa using he)) h
  · rintro ⟨col, hlt, hproper⟩
    refine ⟨(verts edges).map (fun v => (v, col v)), ?_, ?_, ?_⟩
    · intro x hx
      obtain ⟨v, hv, rfl⟩ := List.mem_map.mp hx
      exact ⟨hv, hlt v hv⟩
    · intro v hv
      exact ⟨col v, List.mem_map.mpr ⟨v, hv, rfl⟩⟩
    · intro x hx y hy hne
      obtain ⟨v, hv, rfl⟩ := List.mem_map.mp hx
      obtain ⟨w, hw, rfl⟩ := List.mem_map.mp hy
      have hvw : v ≠ w := fun e => hne (by rw [e])
      apply (aug_adj edges k _ _).mpr
      refine ⟨⟨hv, hlt v hv⟩, ⟨hw, hlt w hw⟩, hvw, ?_⟩
      by_cases hc : col v = col w
      · right
        rintro (hg | hg)
        · exact hproper _ hg hvw hc
        · exact hproper _ hg (fun e => hvw e.symm) hc.symm
      · exact Or.inl hc

/-- `Colourable` is what the executable oracle of the correspondence run tests for a given colouring -/
theorem isColouring_iff (edges : List (String × String)) (col : String → Nat) (k : Nat) :
    ((verts edges).all (fun v => col v < k) && edges.all (fun e => e.1 == e.2 || col e.1 != col e.2)) = true ↔
      (∀ v ∈ verts edges, col v < k) ∧ ∀ e ∈ edges, e.1 ≠ e.2 → col e.1 ≠ col e.2 := by
  simp only [Bool.and_eq_true, List.all_eq_true, decide_eq_true_eq, Bool.or_eq_true, beq_iff_eq, bne_iff_ne]
  constructor
  · rintro ⟨h1, h2⟩
    exact ⟨h1, fun e he hne => (h2 e he).resolve_left hne⟩
  · rintro ⟨h1, h2⟩
    refine ⟨h1, fun e he => ?_⟩
    by_cases h : e.1 = e.2
    · exact Or.inl h
    · exact Or.inr (h2 e he h)

-- non-vacuity: a single edge is 2-colourable and not 1-colourable
example : Colourable [("a", "b")] 2 := by
  refine ⟨fun v => if v = "a" then 0 else 1, ?_, ?_⟩
  · intro v _; dsimp only; split <;> omega
  · intro e he _; simp at he; subst he; decide
example : ¬ Colourable [("a", "b")] 1 := by
  rintro ⟨col, h1, h2⟩
  have ha := h1 "a" (by decide)
  have hb := h1 "b" (by decide)
  have := h2 ("a", "b") (by simp) (by decide)
  simp at this; omega

end Rsbdd.C18
