/-
C18 — random_graph_gen outputs the graph that was asked for.

`Model/Gen/Graph.lean` mirrors the generator (after the `fix:` commit for `--complete 0`);
the shuffle is a parameter: any permutation of the candidate list.

PROVED, for every V, E, -u and every shuffle:
 * `mem_candidates`: the candidate edges are exactly the ordered pairs of distinct vertices
   below V (with -u: exactly the pairs a < b), each once (`candidates_nodup`);
 * `generate_spec`: if the request is granted the output has exactly E edges, pairwise
   distinct, between distinct vertices v0 … v(V-1), and with -u no pair in both orientations;
 * `generate_refuses`: it is refused (an error, nothing printed) exactly when E exceeds the
   number of candidate edges — never truncated;
 * `complete_all`: `--complete` yields every pair exactly once;
 * `convert_directed` / `convert_undirected_*`: `--convert` keeps the list; with -u it drops
   exactly the edges whose reverse was already kept.

NOT proved: `colouring_iff` (the `--colors k` output has a clique covering every input
vertex exactly once iff the input is k-colourable) — decided by brute force on every
generated case by the correspondence run.  The randomness itself (`rand::shuffle` returns a
permutation) is an assumption about the `rand` crate.
-/
import Rsbdd.Model.Gen.Graph

namespace Rsbdd.C18
open Gen.Graph

theorem mem_candidates (v : Nat) (u : Bool) (a b : Nat) :
    (a, b) ∈ candidates v u ↔ a < v ∧ b < v ∧ (if u then a < b else a ≠ b) := by
  simp only [candidates, List.mem_flatMap, List.mem_range]
  constructor
  · rintro ⟨i, hi, h⟩
    cases u
    · simp only [Bool.false_eq_true, if_false, List.mem_map, List.mem_filter, List.mem_range,
        decide_eq_true_eq, Prod.mk.injEq] at h ⊢
      obtain ⟨j, ⟨hj, hne⟩, rfl, rfl⟩ := h
      exact ⟨hi, hj, hne⟩
    · simp only [if_true, List.mem_map, Prod.mk.injEq] at h ⊢
      obtain ⟨j, hj, rfl, rfl⟩ := h
      have hj' := List.mem_of_mem_drop hj
      simp only [List.mem_range] at hj'
      refine ⟨hi, hj', ?_⟩
      -- elements of `drop (i+1) (range v)` are > i
      have : ∀ (l : List Nat) (k : Nat), (∀ x ∈ l, True) → True := fun _ _ _ => trivial
      have key : ∀ (n k x : Nat), x ∈ (List.range n).drop k → k ≤ x := by
        intro n k x hx
        rw [List.mem_iff_getElem] at hx
        obtain ⟨idx, hidx, hget⟩ := hx
        simp at hget hidx
        omega
      have := key v (i + 1) j hj
      omega
  · rintro ⟨ha, hb, h⟩
    refine ⟨a, ha, ?_⟩
    cases u
    · simp only [Bool.false_eq_true, if_false] at h ⊢
      simp only [List.mem_map, List.mem_filter, List.mem_range, decide_eq_true_eq, Prod.mk.injEq]
      exact ⟨b, ⟨hb, h⟩, by simp⟩
    · simp only [if_true] at h ⊢
      simp only [List.mem_map, Prod.mk.injEq]
      refine ⟨b, ?_, by simp⟩
      rw [List.mem_iff_getElem]
      refine ⟨b - (a + 1), by simp; omega, by simp; omega⟩

theorem candidates_nodup (v : Nat) (u : Bool) : (candidates v u).Nodup := by
  unfold candidates
  rw [List.nodup_iff_pairwise_ne, List.pairwise_flatMap]
  constructor
  · intro i _
    cases u
    · simp only [Bool.false_eq_true, if_false]
      apply List.Pairwise.map (R := (· ≠ ·))
      · intro a b hab h; simp at h; exact hab h
      · exact (List.nodup_range).filter _
    · simp only [if_true]
      apply List.Pairwise.map (R := (· ≠ ·))
      · intro a b hab h; simp at h; exact hab h
      · exact (List.drop_sublist _ _).nodup List.nodup_range
  · apply List.Pairwise.imp (R := (· ≠ ·)) _ List.nodup_range
    intro i j hij p hp q hq hpq
    have fst : ∀ (k : Nat) (r : Nat × Nat), r ∈ (if u = true then ((List.range v).drop (k + 1)).map (fun j => (k, j))
        else ((List.range v).filter (fun j => k ≠ j)).map (fun j => (k, j))) → r.1 = k := by
      intro k r hr
      cases u
      · simp only [Bool.false_eq_true, if_false, List.mem_map] at hr
        obtain ⟨_, _, rfl⟩ := hr; rfl
      · simp only [if_true, List.mem_map] at hr
        obtain ⟨_, _, rfl⟩ := hr; rfl
    have h1 : p.1 = i := fst i p hp
    have h2 : q.1 = j := fst j q hq
    rw [hpq] at h1; exact hij (h1.symm.trans h2)

/-- `generate`: granted iff there are enough candidates -/
theorem generate_refuses (shuffled : List (Nat × Nat)) (e : Nat) :
    generate shuffled e = none ↔ shuffled.length < e := by
  unfold generate; split <;> simp <;> omega

/-- what a granted request returns, for every shuffle of the candidate list -/
theorem generate_spec (v : Nat) (u : Bool) (shuffled : List (Nat × Nat)) (e : Nat) (es : List (Nat × Nat))
    (hperm : shuffled.Perm (candidates v u)) (hnd : (candidates v u).Nodup)
    (h : generate shuffled e = some es) :
    es.length = e ∧ es.Nodup ∧
      ∀ p ∈ es, p.1 ≠ p.2 ∧ p.1 < v ∧ p.2 < v ∧ (u = true → (p.2, p.1) ∉ es) := by
  unfold generate at h
  split at h
  · rename_i hle
    cases h
    have hsnd : shuffled.Nodup := hperm.nodup_iff.mpr hnd
    refine ⟨by simp [hle], (List.take_sublist e shuffled).nodup hsnd, ?_⟩
    intro p hp
    have hps : p ∈ shuffled := List.mem_of_mem_take hp
    have hpc : p ∈ candidates v u := hperm.mem_iff.mp hps
    obtain ⟨h1, h2, h3⟩ := (mem_candidates v u p.1 p.2).mp hpc
    refine ⟨?_, h1, h2, ?_⟩
    · cases u <;> simp at h3 <;> omega
    · intro hu hrev
      subst hu
      have hrc : (p.2, p.1) ∈ candidates v true := hperm.mem_iff.mp (List.mem_of_mem_take hrev)
      obtain ⟨_, _, h3'⟩ := (mem_candidates v true p.2 p.1).mp hrc
      simp at h3 h3'; omega
  · simp at h

/-- `--complete`: every pair, exactly once -/
theorem complete_all (v : Nat) (u : Bool) (shuffled : List (Nat × Nat)) (es : List (Nat × Nat))
    (hperm : shuffled.Perm (candidates v u))
    (h : generate shuffled (candidates v u).length = some es) :
    es.Perm (candidates v u) := by
  unfold generate at h
  split at h
  · cases h
    have : shuffled.length = (candidates v u).length := hperm.length_eq
    rw [← this, List.take_length]
    exact hperm
  · simp at h

/-- `--convert` without -u reproduces the list -/
theorem convert_directed (edges : List (String × String)) : readGraph edges false = edges := by
  unfold readGraph
  have : ∀ (es acc : List (String × String)),
      es.foldl (fun acc (x : String × String) => if false && acc.contains (x.2, x.1) then acc else acc ++ [(x.1, x.2)]) acc = acc ++ es := by
    intro es
    induction es with
    | nil => intro acc; simp
    | cons x xs ih =>
      intro acc
      simp only [List.foldl_cons, Bool.false_and, Bool.false_eq_true, if_false]
      have := ih (acc ++ [(x.1, x.2)])
      simp only [Bool.false_and, Bool.false_eq_true, if_false] at this
      rw [this]; simp
  simpa using this edges []

/-- with -u: everything kept comes from the input, and no kept edge has its reverse kept before it -/
theorem convert_undirected_sub (edges : List (String × String)) :
    ∀ p ∈ readGraph edges true, p ∈ edges := by
  unfold readGraph
  have : ∀ (es acc : List (String × String)) p,
      p ∈ es.foldl (fun acc (x : String × String) => if true && acc.contains (x.2, x.1) then acc else acc ++ [(x.1, x.2)]) acc →
      p ∈ acc ∨ p ∈ es := by
    intro es
    induction es with
    | nil => intro acc p h; exact Or.inl h
    | cons x xs ih =>
      intro acc p h
      simp only [List.foldl_cons] at h
      rcases ih _ p h with h' | h'
      · split at h'
        · exact Or.inl h'
        · simp at h'
          rcases h' with h' | rfl
          · exact Or.inl h'
          · exact Or.inr (by simp)
      · exact Or.inr (by simp [h'])
  intro p hp
  rcases this edges [] p hp with h | h
  · simp at h
  · exact h

/-- with -u an input edge is dropped only if its reverse is kept -/
theorem convert_undirected_complete (edges : List (String × String)) :
    ∀ p ∈ edges, p ∈ readGraph edges true ∨ (p.2, p.1) ∈ readGraph edges true := by
  unfold readGraph
  have mono : ∀ (es acc : List (String × String)) q, q ∈ acc →
      q ∈ es.foldl (fun acc (x : String × String) => if true && acc.contains (x.2, x.1) then acc else acc ++ [(x.1, x.2)]) acc := by
    intro es
    induction es with
    | nil => intro acc q h; exact h
    | cons x xs ih =>
      intro acc q h
      simp only [List.foldl_cons]
      apply ih
      split
      · exact h
      · simp [h]
  have : ∀ (es acc : List (String × String)) p, p ∈ es →
      p ∈ es.foldl (fun acc (x : String × String) => if true && acc.contains (x.2, x.1) then acc else acc ++ [(x.1, x.2)]) acc ∨
      (p.2, p.1) ∈ es.foldl (fun acc (x : String × String) => if true && acc.contains (x.2, x.1) then acc else acc ++ [(x.1, x.2)]) acc := by
    intro es
    induction es with
    | nil => intro acc p h; simp at h
    | cons x xs ih =>
      intro acc p h
      simp only [List.foldl_cons]
      simp at h
      rcases h with rfl | h
      · by_cases hc : acc.contains (p.2, p.1) = true
        · right
          apply mono
          simp only [hc, Bool.and_self, if_true]
          simpa using hc
        · left
          apply mono
          have hf : acc.contains (p.2, p.1) = false := by simpa using hc
          simp only [hf, Bool.and_false, Bool.false_eq_true, if_false]
          simp
      · exact ih _ p h
  intro p hp
  exact this edges [] p hp

-- non-vacuity
example : candidates 3 true = [(0, 1), (0, 2), (1, 2)] := by decide
example : candidates 3 false = [(0, 1), (0, 2), (1, 0), (1, 2), (2, 0), (2, 1)] := by decide
example : generate [(0, 1), (1, 2), (0, 2)] 4 = none := by decide
example : readGraph [("a", "b"), ("b", "a"), ("a", "b")] true = [("a", "b"), ("a", "b")] := by decide

end Rsbdd.C18
