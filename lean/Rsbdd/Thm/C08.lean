/-
C08 — the parser accepts exactly the grammar and builds the tree it prescribes.

`Spec/Grammar.lean` is the grammar, in concatenation style (independent of the parser's
organisation).  `Model/Token.lean` / `Model/Parser.lean` mirror the tokenizer and the
recursive-descent parser.

PROVED: soundness — every accepted text is a sentence of the grammar and the tree built is
a tree the grammar assigns (`parse_sound`): "a text that is not a sentence of the grammar
is never accepted with some other meaning".  Every outcome is `ok` or `err`
(`parse_no_third_outcome`, by construction of the model).  The tokenizer ends every token
list with exactly one `Eof` (`tokenize_eof`); leftmost-first over the symbol alternation is
longest match (`symbols_longest_first`: no literal is a proper prefix of a later one).

Completeness — every sentence of the grammar is accepted with its tree (`parse_complete`,
`Proofs/ParseComplete.lean`: closed terms are self-delimiting, open terms and sub-formulas are
read to their end whenever the next token is not a binary operator; 4 units of recursion budget
per token suffice, which is what `parseFormula` supplies).  Hence the grammar is unambiguous
(`derives_unique`: "the unique syntax tree the grammar assigns"), the parser returns `f` exactly
when `f` is that tree (`parse_iff`) and rejects exactly the non-sentences (`reject_iff`).

Lexical level (`Thm/C08L.lean`): `scan_eq_munch` / `tokenize_eq_spec` — the scanner (first matching
alternative of the regular expression) computes the lexical specification of `Spec/Lexer.lean`
(LONGEST matching symbol, digit runs, `{references}`, name runs, quoted comments, every other
character a separator), because no symbol literal is a proper prefix of a later one.  The character
classes `\w` / `\d` of non-ASCII characters are supplied by the regex crate through the harness.
-/
import Rsbdd.Proofs.ParseNoLeaf
import Rsbdd.Proofs.ParseComplete

namespace Rsbdd.C08
open Parser Grammar

/-- an accepted token list (as produced by the tokenizer for some text) is a sentence of the
grammar, and the tree is one the grammar assigns to it -/
theorem parse_sound {cs : List Ch} {ord : List (String × Nat)} {ts : List Token} {f : Formula}
    (ht : tokenize cs ord = some ts) (h : parseFormula ts = some f) : Derives ts f :=
  parse_text_sound ht h

/-- for arbitrary token lists: the parser reads a sentence followed by `Eof` and nothing more -/
theorem parse_sound_tokens {ts : List Token} {f : Formula} (h : parseFormula ts = some f) :
    ∃ pre r, ts = pre ++ .eof :: r ∧ Sub pre f := parseFormula_sound' h

/-- every input is either rejected or parsed: no third outcome -/
theorem parse_no_third_outcome (ts : List Token) :
    (∃ f, parseFormula ts = some f) ∨ parseFormula ts = none := by
  cases h : parseFormula ts
  · exact Or.inr rfl
  · exact Or.inl ⟨_, rfl⟩

theorem tokenize_eof {cs : List Ch} {ord : List (String × Nat)} {ts : List Token}
    (h : tokenize cs ord = some ts) : ∃ body, ts = body ++ [.eof] ∧ Token.eof ∉ body :=
  Rsbdd.tokenize_eof h

def isProperPrefix (a b : List Char) : Bool := a.length < b.length && b.take a.length == a

/-- in the symbol alternation no literal is a proper prefix of a later one, so trying the
literals in order (leftmost-first) yields the longest literal that matches -/
theorem symbols_longest_first : ∀ i j : Fin symbolTable.length, i.val < j.val →
    isProperPrefix (symbolTable[i].1.toList) (symbolTable[j].1.toList) = false := by decide

/-- no symbol or keyword spelling maps to two tokens -/
theorem symbol_spellings_unique : (symbolTable.map (·.1)).Nodup := by decide
theorem keyword_spellings_unique : (keywordTable.map (·.1)).Nodup := by decide

/-- COMPLETENESS: every sentence of the grammar is accepted, with its tree -/
theorem parse_complete {ts : List Token} {f : Formula} (h : Derives ts f) : parseFormula ts = some f :=
  parseFormula_complete h

/-- the grammar is unambiguous: a token list has at most one tree -/
theorem derives_unique {ts : List Token} {f g : Formula} (hf : Derives ts f) (hg : Derives ts g) : f = g := by
  have h1 := parseFormula_complete hf
  have h2 := parseFormula_complete hg
  rw [h1] at h2; exact Option.some.inj h2

/-- the parser accepts exactly the grammar: on a tokenized text, `f` is returned iff `f` is the tree the
grammar assigns to the text -/
theorem parse_iff {cs : List Ch} {ord : List (String × Nat)} {ts : List Token} (ht : tokenize cs ord = some ts)
    (f : Formula) : parseFormula ts = some f ↔ Derives ts f :=
  ⟨fun h => parse_text_sound ht h, parseFormula_complete⟩

/-- … and a text is rejected iff it is not a sentence -/
theorem reject_iff {cs : List Ch} {ord : List (String × Nat)} {ts : List Token} (ht : tokenize cs ord = some ts) :
    parseFormula ts = none ↔ ¬ ∃ f, Derives ts f := by
  constructor
  · rintro h ⟨f, hf⟩
    rw [parseFormula_complete hf] at h; cases h
  · intro h
    cases hp : parseFormula ts with
    | none => rfl
    | some f => exact absurd ⟨f, parse_text_sound ht hp⟩ h

/-- the parser never builds a diagram leaf -/
theorem parse_noLeaf {ts : List Token} {f : Formula} (h : parseFormula ts = some f) : NoLeaf f := by
  obtain ⟨pre, r, _, hs⟩ := parseFormula_sound' h
  exact sub_noLeaf hs

-- non-vacuity: binary operators associate to the right without precedence; a quantifier
-- body extends as far right as possible; a negation applies to the next simple term
example : parseFormula [.var "a" 0, .and, .var "b" 1, .or, .var "c" 2, .eof] =
    some (.bin .and (.var 0) (.bin .or (.var 1) (.var 2))) := by rfl
example : parseFormula [.exists_, .var "a" 0, .hash, .var "a" 0, .and, .var "b" 1, .eof] =
    some (.quant .exists_ [0] (.bin .and (.var 0) (.var 1))) := by rfl
example : parseFormula [.not, .var "a" 0, .and, .var "b" 1, .eof] =
    some (.bin .and (.not (.var 0)) (.var 1)) := by rfl
example : parseFormula [.not, .openSquare, .var "a" 0, .closeSquare, .eq, .var "x" 1, .var "c" 2, .eof] = none := by
  rfl
example : parseFormula [.openSquare, .var "a" 0, .comma, .closeSquare, .geq, .countable 1, .eof] =
    some (.cntConst .atLeast [.var 0] 1) := by rfl

end Rsbdd.C08
