/-
C08 — the parser accepts exactly the grammar and builds the tree it prescribes.

`Spec/Grammar.lean` is the grammar, in concatenation style (independent of the parser's
organisation).  `Model/Token.lean` / `Model/Parser.lean` mirror the tokenizer and the
recursive-descent parser.

PROVED: soundness — every accepted text is a sentence of the grammar and the tree built is
a tree the grammar assigns (`parse_sound`): "a text that is not a sentence of the grammar
is never accepted with some other meaning".  Every outcome is `ok` or `err`
(`parse_no_third_outcome`, by construction of the model).  The tokenizer ends every token
list with exactly one `Eof` (`tokenize_eof`); leftmost-first over the symbol alternation is
longest match (`symbols_longest_first`: no literal is a proper prefix of a later one).

FULL STATEMENT (not proved):
  theorem parse_complete : Derives ts f → parseFormula ts = some f
  theorem derives_unique : Derives ts f → Derives ts f' → f = f'
They are checked by the correspondence run: on every token sequence up to length 3 (thorough: 4)
over the full token alphabet the real parser, the model and a brute-force enumeration of
all derivations (`Grammar.allParses`) agree, and the enumeration never finds two trees.
-/
import Rsbdd.Proofs.ParseNoLeaf

namespace Rsbdd.C08
open Parser Grammar

/-- an accepted token list (as produced by the tokenizer for some text) is a sentence of the
grammar, and the tree is one the grammar assigns to it -/
theorem parse_sound {cs : List Ch} {ord : List (String × Nat)} {ts : List Token} {f : Formula}
    (ht : tokenize cs ord = some ts) (h : parseFormula ts = some f) : Derives ts f :=
  parse_text_sound ht h

/-- for arbitrary token lists: the parser reads a sentence followed by `Eof` and nothing more -/
theorem parse_sound_tokens {ts : List Token} {f : Formula} (h : parseFormula ts = some f) :
    ∃ pre r, ts = pre ++ .eof :: r ∧ Sub pre f := parseFormula_sound' h

/-- every input is either rejected or parsed: no third outcome -/
theorem parse_no_third_outcome (ts : List Token) :
    (∃ f, parseFormula ts = some f) ∨ parseFormula ts = none := by
  cases h : parseFormula ts
  · exact Or.inr rfl
  · exact Or.inl ⟨_, rfl⟩

theorem tokenize_eof {cs : List Ch} {ord : List (String × Nat)} {ts : List Token}
    (h : tokenize cs ord = some ts) : ∃ body, ts = body ++ [.eof] ∧ Token.eof ∉ body :=
  Rsbdd.tokenize_eof h

def isProperPrefix (a b : List Char) : Bool := a.length < b.length && b.take a.length == a

/-- in the symbol alternation no literal is a proper prefix of a later one, so trying the
literals in order (leftmost-first) yields the longest literal that matches -/
theorem symbols_longest_first : ∀ i j : Fin symbolTable.length, i.val < j.val →
    isProperPrefix (symbolTable[i].1.toList) (symbolTable[j].1.toList) = false := by decide

/-- no symbol or keyword spelling maps to two tokens -/
theorem symbol_spellings_unique : (symbolTable.map (·.1)).Nodup := by decide
theorem keyword_spellings_unique : (keywordTable.map (·.1)).Nodup := by decide

/-- the parser never builds a diagram leaf -/
theorem parse_noLeaf {ts : List Token} {f : Formula} (h : parseFormula ts = some f) : NoLeaf f := by
  obtain ⟨pre, r, _, hs⟩ := parseFormula_sound' h
  exact sub_noLeaf hs

-- non-vacuity: binary operators associate to the right without precedence; a quantifier
-- body extends as far right as possible; a negation applies to the next simple term
example : parseFormula [.var "a" 0, .and, .var "b" 1, .or, .var "c" 2, .eof] =
    some (.bin .and (.var 0) (.bin .or (.var 1) (.var 2))) := by rfl
example : parseFormula [.exists_, .var "a" 0, .hash, .var "a" 0, .and, .var "b" 1, .eof] =
    some (.quant .exists_ [0] (.bin .and (.var 0) (.var 1))) := by rfl
example : parseFormula [.not, .var "a" 0, .and, .var "b" 1, .eof] =
    some (.bin .and (.not (.var 0)) (.var 1)) := by rfl
example : parseFormula [.not, .openSquare, .var "a" 0, .closeSquare, .eq, .var "x" 1, .var "c" 2, .eof] = none := by
  rfl
example : parseFormula [.openSquare, .var "a" 0, .comma, .closeSquare, .geq, .countable 1, .eof] =
    some (.cntConst .atLeast [.var 0] 1) := by rfl

end Rsbdd.C08
