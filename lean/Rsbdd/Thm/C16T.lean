/-
C16, the text level: the bytes `max_clique_gen` writes (`Model/Gen/CliqueText.lean`, compared byte for byte with the
real output on every run without `--all` as a recorded tie) are read by the tokenizer and the parser as exactly
`Clique.formula edges vs u all vid cid`, for every edge list, every iteration order `vs` of the vertex set, both
flags, every version string without a double quote and all vertex names that are ASCII identifiers (`NamesOk`:
each name and each copy `<prefix><name>` is one name lexeme and no word of the language, different vertices have
different names, and no copy has the name of a vertex — what the generator's prefix loop establishes):

 * `clique_text_tokens` — under the numbering name ↦ `vid`, copy ↦ `cid`, the tokenizer yields the canonical tokens;
 * `clique_text_parses` — that token list is a sentence of the grammar with tree `Clique.formula …`
   (`Proofs/CliqueParse.lean`, `CliqueDerive.lean`: `-(a & b)` conjuncts, the `forall … # ( … ) => [..] >= [..]` part);
 * `clique_text_solved` — with `clique_max` (C16): solving the bytes yields a diagram true exactly on the maximum cliques.
-/
import Rsbdd.Proofs.CliqueDerive
import Rsbdd.Proofs.CliqueNames
import Rsbdd.Thm.C16B
namespace Rsbdd.C16
open Parser C11 Gen.Clique Grammar Formula BDD

theorem clique_text_tokens (version : String) (hv : '"' ∉ version.toList) (nm : Nat → List Char) (pre : List Char)
    (comp : List (Nat × Nat)) (vs : List Nat) (all : Bool) (vid cid : Nat → Nat)
    (hn : NamesOk nm pre vs) (hcomp : ∀ p ∈ comp, p.1 ∈ vs ∧ p.2 ∈ vs)
    (hvid : ∀ a ∈ vs, ∀ b ∈ vs, vid a = vid b → a = b)
    (hcid : ∀ a ∈ vs, ∀ b ∈ vs, cid a = cid b → a = b)
    (hdisj : ∀ a ∈ vs, ∀ b ∈ vs, vid a ≠ cid b) :
    tokenize (chs (textOf version nm pre comp vs all)) (nameOrdering nm pre vs vid cid) =
      some ((ownToks (fun v => String.ofList (nm v)) vid comp ++
        (if all then [Token.true_] else
          maxToks (fun v => String.ofList (nm v)) (fun v => String.ofList (pre ++ nm v)) vid cid comp vs)) ++ [Token.eof]) := by
  have hok := nameOrdering_ok hn vid cid hvid hcid hdisj
  have hln : ∀ v ∈ vs, (VarTable.preload (nameOrdering nm pre vs vid cid)).lookup (String.ofList (nm v)) = some (vid v) := by
    intro v hv'
    apply preload_lookup hok
    simp only [nameOrdering, List.mem_append, List.mem_map]
    exact Or.inl ⟨v, hv', rfl⟩
  have hlc : ∀ v ∈ vs, (VarTable.preload (nameOrdering nm pre vs vid cid)).lookup (String.ofList (pre ++ nm v)) = some (cid v) := by
    intro v hv'
    apply preload_lookup hok
    simp only [nameOrdering, List.mem_append, List.mem_map]
    exact Or.inr ⟨v, hv', rfl⟩
  unfold tokenize
  have hscan : scan ((chs (textOf version nm pre comp vs all)).length + 1) (chs (textOf version nm pre comp vs all)) =
      lexAll (chs (textOf version nm pre comp vs all)) := by simp only [lexAll]
  rw [hscan, lex_clique version hv nm pre comp vs all hn hcomp]
  generalize VarTable.preload (nameOrdering nm pre vs vid cid) = vt at hln hlc ⊢
  -- every lexeme becomes a token
  have okOwn : AllOk vt (ownLex nm comp) := by
    unfold ownLex
    split
    · exact allOk_cons (lexOk_kw _ _ not_notKeyword_true) (allOk_cons (lexOk_sym _ _) allOk_nil)
    · apply allOk_flatMap
      intro p hp
      exact allOk_append (allOk_pair vt _ _ _ _ (hln _ (hcomp p hp).1) (hln _ (hcomp p hp).2)) (allOk_cons (lexOk_sym _ _) allOk_nil)
  have okMax : AllOk vt (maxLex nm (fun v => pre ++ nm v) comp vs) := by
    unfold maxLex
    have h1 := allOk_names vt (fun v => pre ++ nm v) cid vs hlc
    have h2 := allOk_names vt nm vid vs hln
    have h3 : AllOk vt (if comp.isEmpty then [Lexeme.ident "true"] else copiesLex (fun v => pre ++ nm v) comp) := by
      split
      · exact allOk_cons (lexOk_kw _ _ not_notKeyword_true) allOk_nil
      · exact allOk_copies vt _ cid comp (fun p hp => ⟨hlc _ (hcomp p hp).1, hlc _ (hcomp p hp).2⟩)
    have hs : ∀ ts : List Token, AllOk vt (ts.map Lexeme.sym) := by
      intro ts l hl; obtain ⟨t, _, rfl⟩ := List.mem_map.mp hl; exact lexOk_sym _ _
    exact allOk_append (allOk_append (allOk_append (allOk_append (allOk_append (allOk_append
      (allOk_append (allOk_cons (lexOk_kw _ _ not_notKeyword_forall) h1) (hs [.hash, .openParen])) h3)
      (hs [.closeParen, .implies, .openSquare])) h2) (hs [.closeSquare, .geq, .openSquare])) h1) (hs [.closeSquare])
  -- the tokens
  have mapOwn : (ownLex nm comp).map (tokOf vt) = ownToks (fun v => String.ofList (nm v)) vid comp := by
    unfold ownLex ownToks
    split
    · simp only [List.map_cons, List.map_nil, tokOf_true]; simp [tokOf]
    · rw [List.map_flatMap]
      have aux : ∀ l : List (Nat × Nat), (∀ p ∈ l, p ∈ comp) →
          l.flatMap (fun p => (pairLex (nm p.1) (nm p.2) ++ [Lexeme.sym Token.and]).map (tokOf vt)) =
          l.flatMap (fun p => pairToks (vid p.1) (vid p.2) (String.ofList (nm p.1)) (String.ofList (nm p.2)) ++ [Token.and]) := by
        intro l
        induction l with
        | nil => intro _; rfl
        | cons p l ih =>
          intro hl
          have hp := hl p (by simp)
          simp only [List.flatMap_cons, List.map_append, List.map_cons, List.map_nil]
          rw [tok_pair vt _ _ _ _ (hn.own _ (hcomp p hp).1).2 (hn.own _ (hcomp p hp).2).2 (hln _ (hcomp p hp).1) (hln _ (hcomp p hp).2)]
          have := ih (fun q hq => hl q (by simp [hq]))
          simp only [List.map_append, List.map_cons, List.map_nil] at this
          rw [this]
          simp [tokOf]
      exact aux comp (fun _ h => h)
  have mapMax : (maxLex nm (fun v => pre ++ nm v) comp vs).map (tokOf vt) =
      maxToks (fun v => String.ofList (nm v)) (fun v => String.ofList (pre ++ nm v)) vid cid comp vs := by
    unfold maxLex maxToks
    have t1 := tok_names vt (fun v => pre ++ nm v) cid vs (fun v hv' => ⟨(hn.copy v hv').2, hlc v hv'⟩)
    have t2 := tok_names vt nm vid vs (fun v hv' => ⟨(hn.own v hv').2, hln v hv'⟩)
    have t3 : (if comp.isEmpty then [Lexeme.ident "true"] else copiesLex (fun v => pre ++ nm v) comp).map (tokOf vt) =
        (if comp.isEmpty then [Token.true_] else copiesToks (fun v => String.ofList (pre ++ nm v)) cid comp) := by
      split
      · simp [tokOf_true]
      · exact tok_copies vt _ cid comp (fun p hp =>
          ⟨⟨(hn.copy _ (hcomp p hp).1).2, hlc _ (hcomp p hp).1⟩, ⟨(hn.copy _ (hcomp p hp).2).2, hlc _ (hcomp p hp).2⟩⟩)
    simp only [List.map_append, List.map_cons, List.map_nil, t1, t2, t3, tokOf_forall]
    simp [tokOf]
  rw [toTokens_allOk]
  · simp only [Option.map_some, List.map_append, mapOwn]
    cases all with
    | true => simp [tokOf_true]
    | false => simp only [Bool.false_eq_true, if_false, mapMax]
  · apply allOk_append okOwn
    cases all with
    | true => simp only [if_true]; exact allOk_cons (lexOk_kw _ _ not_notKeyword_true) allOk_nil
    | false => simp only [Bool.false_eq_true, if_false]; exact okMax

/-- MAIN: read under that numbering, the generator's output parses to exactly `Clique.formula` -/
theorem clique_text_parses (version : String) (hv : '"' ∉ version.toList) (nm : Nat → List Char) (pre : List Char)
    (edges : List (Nat × Nat)) (vs : List Nat) (u all : Bool) (vid cid : Nat → Nat)
    (hn : NamesOk nm pre vs)
    (hvid : ∀ a ∈ vs, ∀ b ∈ vs, vid a = vid b → a = b)
    (hcid : ∀ a ∈ vs, ∀ b ∈ vs, cid a = cid b → a = b)
    (hdisj : ∀ a ∈ vs, ∀ b ∈ vs, vid a ≠ cid b) :
    ∃ ts, tokenize (chs (text version nm pre edges vs u all)) (nameOrdering nm pre vs vid cid) = some ts ∧
      parseFormula ts = some (formula edges vs u all vid cid) := by
  refine ⟨_, clique_text_tokens version hv nm pre (complement edges vs u) vs all vid cid hn
    (complement_subset edges vs u) hvid hcid hdisj, ?_⟩
  apply C08.parse_complete
  rw [formula_eq_formulaOf]
  exact ⟨_, rfl, sub_clique _ _ vid cid (complement edges vs u) vs all⟩

/-- hence (without `--all`): solving the bytes yields a diagram that is true exactly on the maximum cliques -/
theorem clique_text_solved (version : String) (hv : '"' ∉ version.toList) (nm : Nat → List Char) (pre : List Char)
    (edges : List (Nat × Nat)) (vs : List Nat) (u : Bool) (vid cid : Nat → Nat)
    (hn : NamesOk nm pre vs)
    (hvid : ∀ a ∈ vs, ∀ b ∈ vs, vid a = vid b → a = b)
    (hcid : ∀ a ∈ vs, ∀ b ∈ vs, cid a = cid b → a = b)
    (hdisj : ∀ a ∈ vs, ∀ b ∈ vs, vid a ≠ cid b) (iters : Nat) :
    ∃ ts f b, tokenize (chs (text version nm pre edges vs u false)) (nameOrdering nm pre vs vid cid) = some ts ∧
      parseFormula ts = some f ∧ evalF iters (depth f) f = some b ∧ ROBDD b ∧
      ∀ σ, (eval b σ = true ↔
        IsClique edges u vs (fun v => σ (vid v)) ∧
        ∀ T : Nat → Bool, IsClique edges u vs T → (vs.filter T).length ≤ (vs.filter (fun v => σ (vid v))).length) := by
  obtain ⟨ts, ht, hp⟩ := clique_text_parses version hv nm pre edges vs u false vid cid hn hvid hcid hdisj
  obtain ⟨b, hb, hr, hs⟩ := clique_solved edges vs u vid cid hcid hdisj iters
  exact ⟨ts, _, b, ht, hp, hb, hr, hs⟩

-- non-vacuity: the vertices `a`, `b` with the copy prefix `v_` meet the hypotheses on the names
example : NamesOk (fun v => if v = 0 then ['a'] else ['b']) ['v', '_'] [0, 1] := by
  have ha : WordOk ['a'] := wordOk_ascii _ (by simp) (by decide) (by decide)
  have hb : WordOk ['b'] := wordOk_ascii _ (by simp) (by decide) (by decide)
  have hva : WordOk ['v', '_', 'a'] := wordOk_ascii _ (by simp) (by decide) (by decide)
  have hvb : WordOk ['v', '_', 'b'] := wordOk_ascii _ (by simp) (by decide) (by decide)
  have ka : NotKeyword "a" := by unfold NotKeyword; decide
  have kb : NotKeyword "b" := by unfold NotKeyword; decide
  have kva : NotKeyword "v_a" := by unfold NotKeyword; decide
  have kvb : NotKeyword "v_b" := by unfold NotKeyword; decide
  refine ⟨?_, ?_, ?_, ?_⟩
  · intro v hv; simp at hv; rcases hv with rfl | rfl
    · exact ⟨ha, ka⟩
    · exact ⟨hb, kb⟩
  · intro v hv; simp at hv; rcases hv with rfl | rfl
    · exact ⟨hva, kva⟩
    · exact ⟨hvb, kvb⟩
  · intro v hv w hw h; simp at hv hw; rcases hv with rfl | rfl <;> rcases hw with rfl | rfl <;> simp at h ⊢
  · intro v hv w hw; simp at hv hw; rcases hv with rfl | rfl <;> rcases hw with rfl | rfl <;> simp

end Rsbdd.C16
