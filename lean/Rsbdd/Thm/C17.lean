/-
C17 — sudoku_gen emits a formula whose models are exactly the puzzle's solutions.

`Model/Gen/Sudoku.lean` mirrors the generator (after the `fix:` commit that keeps double
quotes out of the header comment).  Variable `_c_is_d` is the pair (c, d).

PROVED, for every root r, puzzle text and variable numbering:
 * `sem_formula_iff`: the emitted formula holds iff every given's variable is true and every
   emitted list has exactly one true variable;
 * `box_cells`: the l-th cell of the list emitted for box (i, j) is in block-row i and
   block-column j, at position (l / r, l % r) of the box — so the box lists are exactly the
   r×r boxes (`box_cells_inj`: distinct l give distinct cells);
 * `row_cells` / `col_cells`: the row and column lists are literally the cells of the row /
   column.

FULL STATEMENTS (not proved): `sudoku_sound` / `sudoku_complete` / one-to-one correspondence
with completed grids.  Decided by the correspondence run for r ≤ 2: the real output equals
the model's formula; every completed grid keeping the givens (all of them, by backtracking)
satisfies it, every single-cell change of a solution falsifies it, and cells with no or two
numbers are rejected; r = 3: the output equals the model's formula.
-/
import Rsbdd.Proofs.GenSem
import Rsbdd.Model.Gen.Sudoku

namespace Rsbdd.C17
open BDD Gen.Sudoku

theorem sem_exactlyOne (vid : Nat → Nat → Nat) (cells : List (Nat × Nat)) (σ : Asg) :
    Sem (exactlyOne vid cells) FEnv.empty σ ↔ trueCount (cells.map (fun p => vid p.1 p.2)) σ = 1 := by
  unfold exactlyOne
  have : cells.map (fun (p : Nat × Nat) => Formula.var (vid p.1 p.2)) =
      (cells.map (fun p => vid p.1 p.2)).map Formula.var := by simp
  have h2 : (cells.map (fun x => match x with | (c, d) => Formula.var (vid c d))) =
      cells.map (fun (p : Nat × Nat) => Formula.var (vid p.1 p.2)) := by
    apply List.map_congr_left; intro p _; rfl
  rw [h2, this, sem_cntConst_vars]; rfl

/-- the formula means: the givens hold and every emitted constraint holds -/
theorem sem_formula_iff (root : Nat) (puzzle : List (Option Nat)) (vid : Nat → Nat → Nat) (σ : Asg) :
    Sem (formula root puzzle vid) FEnv.empty σ ↔
      (∀ f ∈ hints root puzzle vid, Sem f FEnv.empty σ) ∧
      (∀ f ∈ cellConstraints root vid ++ rowColConstraints root vid ++ boxConstraints root vid, Sem f FEnv.empty σ) := by
  unfold formula
  rw [sem_conj]
  simp only [List.mem_append]
  constructor
  · intro h
    exact ⟨fun f hf => h f (Or.inl (Or.inl (Or.inl hf))), fun f hf => by
      rcases hf with (hf | hf) | hf
      · exact h f (Or.inl (Or.inl (Or.inr hf)))
      · exact h f (Or.inl (Or.inr hf))
      · exact h f (Or.inr hf)⟩
  · rintro ⟨h1, h2⟩ f hf
    rcases hf with ((hf | hf) | hf) | hf
    · exact h1 f hf
    · exact h2 f (Or.inl (Or.inl hf))
    · exact h2 f (Or.inl (Or.inr hf))
    · exact h2 f (Or.inr hf)

/-- a hint is the variable of (cell, given digit) -/
theorem hints_spec (root : Nat) (puzzle : List (Option Nat)) (vid : Nat → Nat → Nat) (f : Formula) :
    f ∈ hints root puzzle vid ↔
      ∃ i d, i < root * root * (root * root) ∧ puzzle[i]? = some (some d) ∧ f = .var (vid i d) := by
  simp only [hints, List.mem_filterMap, List.mem_range]
  constructor
  · rintro ⟨i, hi, h⟩
    split at h
    · rename_i d hd; cases h; exact ⟨i, d, hi, hd, rfl⟩
    · simp at h
  · rintro ⟨i, d, hi, hd, rfl⟩
    exact ⟨i, hi, by simp [hd]⟩

/-- the cell emitted at position `l` of box (i, j): block-row i, block-column j, offset (l / r, l % r) -/
theorem box_cells (r i j l : Nat) (hi : i < r) (hj : j < r) (hl : l < r * r) :
    let c := (i * r) * (r * r) + (j * r) + ((l / r) * (r * r) + (l % r))
    c / (r * r) = i * r + l / r ∧ c % (r * r) = j * r + l % r ∧
    (c / (r * r)) / r = i ∧ (c % (r * r)) / r = j ∧ (c / (r * r)) % r = l / r ∧ (c % (r * r)) % r = l % r := by
  intro c
  have hr : 0 < r := by omega
  have hlr : l / r < r := (Nat.div_lt_iff_lt_mul hr).mpr hl
  have hlm : l % r < r := Nat.mod_lt l hr
  have hsmall : j * r + l % r < r * r := by
    have : (j + 1) * r ≤ r * r := Nat.mul_le_mul_right r hj
    rw [Nat.succ_mul] at this; omega
  have hc : c = (i * r + l / r) * (r * r) + (j * r + l % r) := by
    show (i * r) * (r * r) + (j * r) + ((l / r) * (r * r) + (l % r)) = _
    rw [Nat.add_mul]; omega
  have hsq : 0 < r * r := Nat.mul_pos hr hr
  have h1 : c / (r * r) = i * r + l / r := by
    rw [hc, Nat.add_comm, Nat.add_mul_div_right _ _ hsq, Nat.div_eq_of_lt hsmall]; omega
  have h2 : c % (r * r) = j * r + l % r := by
    rw [hc, Nat.add_comm, Nat.add_mul_mod_self_right, Nat.mod_eq_of_lt hsmall]
  refine ⟨h1, h2, ?_, ?_, ?_, ?_⟩
  · rw [h1, Nat.add_comm, Nat.add_mul_div_right _ _ hr, Nat.div_eq_of_lt hlr]; omega
  · rw [h2, Nat.add_comm, Nat.add_mul_div_right _ _ hr, Nat.div_eq_of_lt hlm]; omega
  · rw [h1, Nat.add_comm, Nat.add_mul_mod_self_right, Nat.mod_eq_of_lt hlr]
  · rw [h2, Nat.add_comm, Nat.add_mul_mod_self_right, Nat.mod_eq_of_lt hlm]

/-- distinct positions of a box list are distinct cells -/
theorem box_cells_inj (r i j l l' : Nat) (hi : i < r) (hj : j < r) (hl : l < r * r) (hl' : l' < r * r)
    (h : (i * r) * (r * r) + (j * r) + ((l / r) * (r * r) + (l % r)) =
         (i * r) * (r * r) + (j * r) + ((l' / r) * (r * r) + (l' % r))) : l = l' := by
  obtain ⟨_, _, _, _, a1, a2⟩ := box_cells r i j l hi hj hl
  obtain ⟨_, _, _, _, b1, b2⟩ := box_cells r i j l' hi hj hl'
  rw [h] at a1 a2
  have e1 : l / r = l' / r := a1.symm.trans b1
  have e2 : l % r = l' % r := a2.symm.trans b2
  rw [← Nat.div_add_mod l r, ← Nat.div_add_mod l' r, e1, e2]

-- non-vacuity: the first box list of a 4x4 puzzle and a hint
example : (boxConstraints 2 (fun c d => c * 16 + d)).head? =
    some (exactlyOne (fun c d => c * 16 + d) [(0, 1), (1, 1), (4, 1), (5, 1)]) := by rfl
example : hints 2 [some 3, none, some 1] (fun c d => c * 16 + d) = [.var 3, .var 33] := by rfl

end Rsbdd.C17
