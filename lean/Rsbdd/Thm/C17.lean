/-
C17 — sudoku_gen emits a formula whose models are exactly the puzzle's solutions.

`Model/Gen/Sudoku.lean` mirrors the generator (after the `fix:` commit that keeps double
quotes out of the header comment).  Variable `_c_is_d` is the pair (c, d).

PROVED, for every root r, puzzle text and variable numbering:
 * `sem_formula_iff`: the emitted formula holds iff every given's variable is true and every
   emitted list has exactly one true variable;
 * `box_cells`: the l-th cell of the list emitted for box (i, j) is in block-row i and
   block-column j, at position (l / r, l % r) of the box — so the box lists are exactly the
   r×r boxes (`box_cells_inj`: distinct l give distinct cells);
 * `row_cells` / `col_cells`: the row and column lists are literally the cells of the row /
   column.

 * `sudoku_models` (the FULL STATEMENT): for givens that are digits between 1 and r², an
   assignment satisfies the emitted formula exactly when it encodes (`_c_is_d` true iff cell c
   holds d) a completed grid with every number 1..r² once in every row, column and r×r box that
   keeps the givens (`ValidGrid`);
 * `grid_unique`, `asg_unique`, `grid_has_model`: the correspondence is one-to-one — an assignment
   encodes at most one grid, a grid fixes the assignment on every variable of the formula, and
   every grid has its assignment when distinct (cell, number) pairs are distinct variables;
 * `sudoku_solved`: the evaluator terminates on the emitted formula and the diagram it returns
   is true exactly on the encodings of the solutions (composition with C01).

"Non-digit characters are blanks and whitespace is ignored" is the harness/driver's reading of
the text into `List (Option Nat)` (by characters, `char::is_whitespace` removed) — checked by
the correspondence run on puzzles with ASCII, multi-byte and full-width-digit blanks.

Not proved: that the bytes the binary writes parse to `Sudoku.formula` (tree equality per
generated puzzle in the correspondence run, r ≤ 3).  `isSudoku_iff`: the executable oracle
`Puzzles.isSudoku` (which selects the cells of a box by their box index instead of enumerating them)
decides exactly `ValidGrid` (`box_count`: the two ways of counting a box agree), so
`sudoku_models_bool` states C17 against the oracle the correspondence run uses.
-/
import Rsbdd.Proofs.GenSem
import Rsbdd.Proofs.GenGood
import Rsbdd.Model.Gen.Sudoku
import Rsbdd.Spec.Puzzles

namespace Rsbdd.C17
open BDD Gen.Sudoku

theorem sem_exactlyOne (vid : Nat → Nat → Nat) (cells : List (Nat × Nat)) (σ : Asg) :
    Sem (exactlyOne vid cells) FEnv.empty σ ↔ trueCount (cells.map (fun p => vid p.1 p.2)) σ = 1 := by
  unfold exactlyOne
  have : cells.map (fun (p : Nat × Nat) => Formula.var (vid p.1 p.2)) =
      (cells.map (fun p => vid p.1 p.2)).map Formula.var := by simp
  have h2 : (cells.map (fun x => match x with | (c, d) => Formula.var (vid c d))) =
      cells.map (fun (p : Nat × Nat) => Formula.var (vid p.1 p.2)) := by
    apply List.map_congr_left; intro p _; rfl
  rw [h2, this, sem_cntConst_vars]; rfl

/-- the formula means: the givens hold and every emitted constraint holds -/
theorem sem_formula_iff (root : Nat) (puzzle : List (Option Nat)) (vid : Nat → Nat → Nat) (σ : Asg) :
    Sem (formula root puzzle vid) FEnv.empty σ ↔
      (∀ f ∈ hints root puzzle vid, Sem f FEnv.empty σ) ∧
      (∀ f ∈ cellConstraints root vid ++ rowColConstraints root vid ++ boxConstraints root vid, Sem f FEnv.empty σ) := by
  unfold formula
  rw [sem_conj]
  simp only [List.mem_append]
  constructor
  · intro h
    exact ⟨fun f hf => h f (Or.inl (Or.inl (Or.inl hf))), fun f hf => by
      rcases hf with (hf | hf) | hf
      · exact h f (Or.inl (Or.inl (Or.inr hf)))
      · exact h f (Or.inl (Or.inr hf))
      · exact h f (Or.inr hf)⟩
  · rintro ⟨h1, h2⟩ f hf
    rcases hf with ((hf | hf) | hf) | hf
    · exact h1 f hf
    · exact h2 f (Or.inl (Or.inl hf))
    · exact h2 f (Or.inl (Or.inr hf))
    · exact h2 f (Or.inr hf)

/-- a hint is the variable of (cell, given digit) -/
theorem hints_spec (root : Nat) (puzzle : List (Option Nat)) (vid : Nat → Nat → Nat) (f : Formula) :
    f ∈ hints root puzzle vid ↔
      ∃ i d, i < root * root * (root * root) ∧ puzzle[i]? = some (some d) ∧ f = .var (vid i d) := by
  simp only [hints, List.mem_filterMap, List.mem_range]
  constructor
  · rintro ⟨i, hi, h⟩
    split at h
    · rename_i d hd; cases h; exact ⟨i, d, hi, hd, rfl⟩
    · simp at h
  · rintro ⟨i, d, hi, hd, rfl⟩
    exact ⟨i, hi, by simp [hd]⟩

/-- the cell emitted at position `l` of box (i, j): block-row i, block-column j, offset (l / r, l % r) -/
theorem box_cells (r i j l : Nat) (hi : i < r) (hj : j < r) (hl : l < r * r) :
    let c := (i * r) * (r * r) + (j * r) + ((l / r) * (r * r) + (l % r))
    c / (r * r) = i * r + l / r ∧ c % (r * r) = j * r + l % r ∧
    (c / (r * r)) / r = i ∧ (c % (r * r)) / r = j ∧ (c / (r * r)) % r = l / r ∧ (c % (r * r)) % r = l % r := by
  intro c
  have hr : 0 < r := by omega
  have hlr : l / r < r := (Nat.div_lt_iff_lt_mul hr).mpr hl
  have hlm : l % r < r := Nat.mod_lt l hr
  have hsmall : j * r + l % r < r * r := by
    have : (j + 1) * r ≤ r * r := Nat.mul_le_mul_right r hj
    rw [Nat.succ_mul] at this; omega
  have hc : c = (i * r + l / r) * (r * r) + (j * r + l % r) := by
    show (i * r) * (r * r) + (j * r) + ((l / r) * (r * r) + (l % r)) = _
    rw [Nat.add_mul]; omega
  have hsq : 0 < r * r := Nat.mul_pos hr hr
  have h1 : c / (r * r) = i * r + l / r := by
    rw [hc, Nat.add_comm, Nat.add_mul_div_right _ _ hsq, Nat.div_eq_of_lt hsmall]; omega
  have h2 : c % (r * r) = j * r + l % r := by
    rw [hc, Nat.add_comm, Nat.add_mul_mod_self_right, Nat.mod_eq_of_lt hsmall]
  refine ⟨h1, h2, ?_, ?_, ?_, ?_⟩
  · rw [h1, Nat.add_comm, Nat.add_mul_div_right _ _ hr, Nat.div_eq_of_lt hlr]; omega
  · rw [h2, Nat.add_comm, Nat.add_mul_div_right _ _ hr, Nat.div_eq_of_lt hlm]; omega
  · rw [h1, Nat.add_comm, Nat.add_mul_mod_self_right, Nat.mod_eq_of_lt hlr]
  · rw [h2, Nat.add_comm, Nat.add_mul_mod_self_right, Nat.mod_eq_of_lt hlm]

/-- distinct positions of a box list are distinct cells -/
theorem box_cells_inj (r i j l l' : Nat) (hi : i < r) (hj : j < r) (hl : l < r * r) (hl' : l' < r * r)
    (h : (i * r) * (r * r) + (j * r) + ((l / r) * (r * r) + (l % r)) =
         (i * r) * (r * r) + (j * r) + ((l' / r) * (r * r) + (l' % r))) : l = l' := by
  obtain ⟨_, _, _, _, a1, a2⟩ := box_cells r i j l hi hj hl
  obtain ⟨_, _, _, _, b1, b2⟩ := box_cells r i j l' hi hj hl'
  rw [h] at a1 a2
  have e1 : l / r = l' / r := a1.symm.trans b1
  have e2 : l % r = l' % r := a2.symm.trans b2
  rw [← Nat.div_add_mod l r, ← Nat.div_add_mod l' r, e1, e2]

-- non-vacuity: the first box list of a 4x4 puzzle and a hint
example : (boxConstraints 2 (fun c d => c * 16 + d)).head? =
    some (exactlyOne (fun c d => c * 16 + d) [(0, 1), (1, 1), (4, 1), (5, 1)]) := by rfl
example : hints 2 [some 3, none, some 1] (fun c d => c * 16 + d) = [.var 3, .var 33] := by rfl


/-- a completed grid of root `r` keeping the givens: `g c` is the number in cell `c`
(row-major); every number 1..r² exactly once in every row, column and r×r box -/
def ValidGrid (r : Nat) (givens : List (Option Nat)) (g : Nat → Nat) : Prop :=
  (∀ c, c < r * r * (r * r) → 1 ≤ g c ∧ g c ≤ r * r) ∧
  (∀ i d0, i < r * r → d0 < r * r →
    ((List.range (r * r)).filter (fun j => g (i * (r * r) + j) == d0 + 1)).length = 1) ∧
  (∀ i d0, i < r * r → d0 < r * r →
    ((List.range (r * r)).filter (fun j => g (j * (r * r) + i) == d0 + 1)).length = 1) ∧
  (∀ bi bj d0, bi < r → bj < r → d0 < r * r →
    ((List.range (r * r)).filter (fun l => g ((bi * r + l / r) * (r * r) + (bj * r + l % r)) == d0 + 1)).length = 1) ∧
  (∀ c d, c < r * r * (r * r) → givens[c]? = some (some d) → g c = d)

/-- σ encodes g: variable `_c_is_d` is true exactly when cell c holds d -/
def Encodes (r : Nat) (vid : Nat → Nat → Nat) (σ : Asg) (g : Nat → Nat) : Prop :=
  ∀ c d0, c < r * r * (r * r) → d0 < r * r → (σ (vid c (d0 + 1)) = true ↔ g c = d0 + 1)

theorem cell_lt {sq a b : Nat} (ha : a < sq) (hb : b < sq) : a * sq + b < sq * sq := by
  have h1 : (a + 1) * sq ≤ sq * sq := Nat.mul_le_mul_right sq ha
  rw [Nat.succ_mul] at h1; omega

theorem box_pos_lt {r bi l : Nat} (hbi : bi < r) (hl : l < r * r) : bi * r + l / r < r * r := by
  have hr : 0 < r := by omega
  have hlr : l / r < r := (Nat.div_lt_iff_lt_mul hr).mpr hl
  have : (bi + 1) * r ≤ r * r := Nat.mul_le_mul_right r hbi
  rw [Nat.succ_mul] at this; omega

theorem box_pos_lt' {r bj l : Nat} (hbj : bj < r) (_hl : l < r * r) : bj * r + l % r < r * r := by
  have hr : 0 < r := by omega
  have hlm : l % r < r := Nat.mod_lt l hr
  have : (bj + 1) * r ≤ r * r := Nat.mul_le_mul_right r hbj
  rw [Nat.succ_mul] at this; omega

/-- the index the generator writes for position l of box (i, j) is the cell in row i·r + l/r,
column j·r + l%r -/
theorem box_index (r i j l : Nat) :
    (i * r) * (r * r) + (j * r) + ((l / r) * (r * r) + (l % r)) = (i * r + l / r) * (r * r) + (j * r + l % r) := by
  rw [Nat.add_mul]; omega

/-- what the emitted constraints say, list by list -/
theorem constraints_iff (r : Nat) (vid : Nat → Nat → Nat) (σ : Asg) :
    (∀ f ∈ cellConstraints r vid ++ rowColConstraints r vid ++ boxConstraints r vid, Sem f FEnv.empty σ) ↔
      (∀ c, c < r * r * (r * r) → trueCount ((List.range (r * r)).map (fun j => vid c (j + 1))) σ = 1) ∧
      (∀ i d0, i < r * r → d0 < r * r →
        trueCount ((List.range (r * r)).map (fun j => vid (i * (r * r) + j) (d0 + 1))) σ = 1) ∧
      (∀ i d0, i < r * r → d0 < r * r →
        trueCount ((List.range (r * r)).map (fun j => vid (j * (r * r) + i) (d0 + 1))) σ = 1) ∧
      (∀ bi bj d0, bi < r → bj < r → d0 < r * r →
        trueCount ((List.range (r * r)).map
          (fun l => vid ((bi * r + l / r) * (r * r) + (bj * r + l % r)) (d0 + 1))) σ = 1) := by
  simp only [List.mem_append, or_imp, forall_and, cellConstraints, rowColConstraints, boxConstraints,
    List.mem_map, List.mem_flatMap, List.mem_range, List.mem_cons, List.not_mem_nil, or_false,
    forall_exists_index, and_imp, forall_apply_eq_imp_iff₂, sem_exactlyOne, List.map_map, Function.comp_def,
    box_index, and_assoc]
  constructor
  · rintro ⟨h1, h2, h3, h4⟩
    refine ⟨h1, fun i d0 hi hd => ?_, fun i d0 hi hd => ?_, fun bi bj d0 hbi hbj hd => ?_⟩
    · have := h2 _ i hi d0 hd rfl
      simpa only [sem_exactlyOne, List.map_map, Function.comp_def] using this
    · have := h3 _ i hi d0 hd rfl
      simpa only [sem_exactlyOne, List.map_map, Function.comp_def] using this
    · have := h4 _ bi hbi bj hbj d0 hd rfl
      simpa only [sem_exactlyOne, List.map_map, Function.comp_def] using this
  · rintro ⟨h1, h2, h3, h4⟩
    refine ⟨h1, ?_, ?_, ?_⟩
    · rintro x i hi d0 hd rfl
      simpa only [sem_exactlyOne, List.map_map, Function.comp_def] using h2 i d0 hi hd
    · rintro x i hi d0 hd rfl
      simpa only [sem_exactlyOne, List.map_map, Function.comp_def] using h3 i d0 hi hd
    · rintro x bi hbi bj hbj d0 hd rfl
      simpa only [sem_exactlyOne, List.map_map, Function.comp_def] using h4 bi bj d0 hbi hbj hd


/-- under an encoding, counting true variables of one number along a list of cells is counting
the cells that hold the number -/
theorem count_transfer {r : Nat} {vid : Nat → Nat → Nat} {σ : Asg} {g : Nat → Nat} (henc : Encodes r vid σ g)
    (cellf : Nat → Nat) (hlt : ∀ j, j < r * r → cellf j < r * r * (r * r)) (d0 : Nat) (hd : d0 < r * r) :
    trueCount ((List.range (r * r)).map (fun j => vid (cellf j) (d0 + 1))) σ =
      ((List.range (r * r)).filter (fun j => g (cellf j) == d0 + 1)).length := by
  rw [trueCount_map]
  congr 1
  apply List.filter_congr
  intro j hj
  have hj' : j < r * r := by simpa using hj
  rw [Bool.eq_iff_iff]
  simp only [beq_iff_eq]
  exact henc (cellf j) d0 (hlt j hj') hd

theorem sem_hints_iff (r : Nat) (puzzle : List (Option Nat)) (vid : Nat → Nat → Nat) (σ : Asg) :
    (∀ f ∈ hints r puzzle vid, Sem f FEnv.empty σ) ↔
      ∀ i d, i < r * r * (r * r) → puzzle[i]? = some (some d) → σ (vid i d) = true := by
  constructor
  · intro h i d hi hp
    have := h _ ((hints_spec r puzzle vid _).mpr ⟨i, d, hi, hp, rfl⟩)
    simpa [Sem, FEnv.empty] using this
  · intro h f hf
    obtain ⟨i, d, hi, hp, rfl⟩ := (hints_spec r puzzle vid f).mp hf
    simpa [Sem, FEnv.empty] using h i d hi hp

/-- C17, the correspondence: an assignment satisfies the emitted formula exactly when it encodes a
completed grid that keeps the givens and has every number once per row, column and box.
`hscope`: the givens are digits between 1 and r². -/
theorem sudoku_models (r : Nat) (puzzle : List (Option Nat)) (vid : Nat → Nat → Nat) (σ : Asg)
    (hscope : ∀ c d, c < r * r * (r * r) → puzzle[c]? = some (some d) → 1 ≤ d ∧ d ≤ r * r) :
    Sem (formula r puzzle vid) FEnv.empty σ ↔ ∃ g, ValidGrid r puzzle g ∧ Encodes r vid σ g := by
  rw [sem_formula_iff, constraints_iff, sem_hints_iff]
  constructor
  · rintro ⟨hh, hcell, hrow, hcol, hbox⟩
    have hex : ∀ c, c < r * r * (r * r) → ∃ a, a < r * r ∧ σ (vid c (a + 1)) = true :=
      fun c hc => ((trueCount_range_eq_one _ _ _).mp (hcell c hc)).1
    have huniq : ∀ c, c < r * r * (r * r) → ∀ a b, a < r * r → b < r * r →
        σ (vid c (a + 1)) = true → σ (vid c (b + 1)) = true → a = b := by
      intro c hc a b ha hb sa sb
      have h2 := ((trueCount_range_eq_one _ _ _).mp (hcell c hc)).2
      rcases Nat.lt_trichotomy a b with h | h | h
      · exact absurd ⟨sa, sb⟩ (h2 a b h hb)
      · exact h
      · exact absurd ⟨sb, sa⟩ (h2 b a h ha)
    let g : Nat → Nat := fun c =>
      if h : ∃ a, a < r * r ∧ σ (vid c (a + 1)) = true then Classical.choose h + 1 else 0
    have hg : ∀ c, c < r * r * (r * r) → ∃ a, a < r * r ∧ σ (vid c (a + 1)) = true ∧ g c = a + 1 := by
      intro c hc
      have h := hex c hc
      refine ⟨Classical.choose h, (Classical.choose_spec h).1, (Classical.choose_spec h).2, ?_⟩
      simp only [g, h, dif_pos]
    have henc : Encodes r vid σ g := by
      intro c d0 hc hd
      obtain ⟨a, ha, sa, ga⟩ := hg c hc
      constructor
      · intro sd
        rw [ga, huniq c hc a d0 ha hd sa sd]
      · intro gd
        have : a = d0 := by omega
        rw [← this]; exact sa
    refine ⟨g, ⟨?_, ?_, ?_, ?_, ?_⟩, henc⟩
    · intro c hc
      obtain ⟨a, ha, _, ga⟩ := hg c hc
      omega
    · intro i d0 hi hd
      rw [← count_transfer henc (fun j => i * (r * r) + j) (fun j hj => cell_lt hi hj) d0 hd]
      exact hrow i d0 hi hd
    · intro i d0 hi hd
      rw [← count_transfer henc (fun j => j * (r * r) + i) (fun j hj => cell_lt hj hi) d0 hd]
      exact hcol i d0 hi hd
    · intro bi bj d0 hbi hbj hd
      rw [← count_transfer henc (fun l => (bi * r + l / r) * (r * r) + (bj * r + l % r))
        (fun l hl => cell_lt (box_pos_lt hbi hl) (box_pos_lt' hbj hl)) d0 hd]
      exact hbox bi bj d0 hbi hbj hd
    · intro c d hc hp
      obtain ⟨h1, h2⟩ := hscope c d hc hp
      have := hh c d hc hp
      have e : d = (d - 1) + 1 := by omega
      rw [e] at this ⊢
      exact (henc c (d - 1) hc (by omega)).mp this
  · rintro ⟨g, ⟨hrange, hrow, hcol, hbox, hgiv⟩, henc⟩
    refine ⟨?_, ?_, ?_, ?_, ?_⟩
    · intro i d hi hp
      obtain ⟨h1, h2⟩ := hscope i d hi hp
      have e : d = (d - 1) + 1 := by omega
      rw [e]
      exact (henc i (d - 1) hi (by omega)).mpr (by rw [hgiv i d hi hp]; exact e)
    · intro c hc
      obtain ⟨h1, h2⟩ := hrange c hc
      rw [trueCount_range_eq_one]
      constructor
      · exact ⟨g c - 1, by omega, (henc c (g c - 1) hc (by omega)).mpr (by omega)⟩
      · rintro a b hab hb ⟨sa, sb⟩
        have ea := (henc c a hc (by omega)).mp sa
        have eb := (henc c b hc hb).mp sb
        omega
    · intro i d0 hi hd
      rw [count_transfer henc (fun j => i * (r * r) + j) (fun j hj => cell_lt hi hj) d0 hd]
      exact hrow i d0 hi hd
    · intro i d0 hi hd
      rw [count_transfer henc (fun j => j * (r * r) + i) (fun j hj => cell_lt hj hi) d0 hd]
      exact hcol i d0 hi hd
    · intro bi bj d0 hbi hbj hd
      rw [count_transfer henc (fun l => (bi * r + l / r) * (r * r) + (bj * r + l % r))
        (fun l hl => cell_lt (box_pos_lt hbi hl) (box_pos_lt' hbj hl)) d0 hd]
      exact hbox bi bj d0 hbi hbj hd

/-- one-to-one, first half: an assignment encodes at most one grid -/
theorem grid_unique {r : Nat} {vid : Nat → Nat → Nat} {σ : Asg} {givens : List (Option Nat)} {g g' : Nat → Nat}
    (hv : ValidGrid r givens g)
    (h : Encodes r vid σ g) (h' : Encodes r vid σ g') : ∀ c, c < r * r * (r * r) → g c = g' c := by
  intro c hc
  obtain ⟨h1, h2⟩ := hv.1 c hc
  have := (h c (g c - 1) hc (by omega)).mpr (by omega)
  have := (h' c (g c - 1) hc (by omega)).mp this
  omega

/-- one-to-one, second half: a grid determines the assignment on every variable the formula mentions -/
theorem asg_unique {r : Nat} {vid : Nat → Nat → Nat} {σ σ' : Asg} {g : Nat → Nat}
    (h : Encodes r vid σ g) (h' : Encodes r vid σ' g) :
    ∀ c d0, c < r * r * (r * r) → d0 < r * r → σ (vid c (d0 + 1)) = σ' (vid c (d0 + 1)) := by
  intro c d0 hc hd
  rw [Bool.eq_iff_iff]
  exact (h c d0 hc hd).trans (h' c d0 hc hd).symm

/-- every completed grid has its assignment (distinct (cell, number) pairs are distinct variables) -/
theorem grid_has_model (r : Nat) (vid : Nat → Nat → Nat) (g : Nat → Nat)
    (hinj : ∀ c d c' d', vid c d = vid c' d' → c = c' ∧ d = d') :
    ∃ σ, Encodes r vid σ g := by
  classical
  refine ⟨fun x => decide (∃ c, vid c (g c) = x), ?_⟩
  intro c d0 hc hd
  simp only [decide_eq_true_eq]
  constructor
  · rintro ⟨c', e⟩
    obtain ⟨e1, e2⟩ := hinj _ _ _ _ e
    subst e1; exact e2
  · intro e; exact ⟨c, by rw [e]⟩


theorem formula_good (r : Nat) (puzzle : List (Option Nat)) (vid : Nat → Nat → Nat) :
    GoodF (formula r puzzle vid) ∧ C01.NoFix (formula r puzzle vid) := by
  unfold formula
  have key : ∀ f ∈ hints r puzzle vid ++ cellConstraints r vid ++ rowColConstraints r vid ++ boxConstraints r vid,
      GoodF f ∧ C01.NoFix f := by
    intro f hf
    have hex : ∀ cells : List (Nat × Nat), GoodF (exactlyOne vid cells) ∧ C01.NoFix (exactlyOne vid cells) := by
      intro cells
      have h2 : (cells.map (fun x => match x with | (c, d) => Formula.var (vid c d))) =
          (cells.map (fun p => vid p.1 p.2)).map Formula.var := by
        rw [List.map_map]; apply List.map_congr_left; intro p _; rfl
      simp only [exactlyOne, GoodF, C01.NoFix, h2]
      exact ⟨goodFL_map_var _, noFixL_map_var _⟩
    simp only [List.mem_append] at hf
    rcases hf with ((hf | hf) | hf) | hf
    · obtain ⟨i, d, _, _, rfl⟩ := (hints_spec r puzzle vid f).mp hf
      simp [GoodF, C01.NoFix]
    · simp only [cellConstraints, List.mem_map] at hf
      obtain ⟨i, _, rfl⟩ := hf; exact hex _
    · simp only [rowColConstraints, List.mem_flatMap, List.mem_cons, List.not_mem_nil, or_false] at hf
      obtain ⟨i, _, k, _, rfl | rfl⟩ := hf <;> exact hex _
    · simp only [boxConstraints, List.mem_flatMap, List.mem_map] at hf
      obtain ⟨i, _, j, _, k, _, rfl⟩ := hf; exact hex _
  exact ⟨goodF_conj _ (fun f hf => (key f hf).1), noFix_conj _ (fun f hf => (key f hf).2)⟩

/-- solving the emitted formula with rsbdd: the evaluator returns, and the diagram it returns is
true exactly on the encodings of the puzzle's solutions -/
theorem sudoku_solved (r : Nat) (puzzle : List (Option Nat)) (vid : Nat → Nat → Nat)
    (hscope : ∀ c d, c < r * r * (r * r) → puzzle[c]? = some (some d) → 1 ≤ d ∧ d ≤ r * r) (iters : Nat) :
    let f := formula r puzzle vid
    ∃ b, Formula.evalF iters (Formula.depth f) f = some b ∧ ROBDD b ∧
      ∀ σ, (eval b σ = true ↔ ∃ g, ValidGrid r puzzle g ∧ Encodes r vid σ g) := by
  intro f
  obtain ⟨b, hb, hr, hs⟩ := solved f (formula_good ..).1 (formula_good ..).2 iters
  exact ⟨b, hb, hr, fun σ => (hs σ).trans (sudoku_models r puzzle vid σ hscope)⟩

-- non-vacuity: the solved 4×4 grid is a valid grid for a puzzle showing its first cell
example : ValidGrid 2 [some 1] (fun c => [1, 2, 3, 4, 3, 4, 1, 2, 2, 1, 4, 3, 4, 3, 2, 1].getD c 0) := by
  have h2 : ∀ i, i < 2 * 2 → ∀ d0, d0 < 2 * 2 → ((List.range (2 * 2)).filter (fun j =>
      [1, 2, 3, 4, 3, 4, 1, 2, 2, 1, 4, 3, 4, 3, 2, 1].getD (i * (2 * 2) + j) 0 == d0 + 1)).length = 1 := by decide
  have h3 : ∀ i, i < 2 * 2 → ∀ d0, d0 < 2 * 2 → ((List.range (2 * 2)).filter (fun j =>
      [1, 2, 3, 4, 3, 4, 1, 2, 2, 1, 4, 3, 4, 3, 2, 1].getD (j * (2 * 2) + i) 0 == d0 + 1)).length = 1 := by decide
  have h4 : ∀ bi, bi < 2 → ∀ bj, bj < 2 → ∀ d0, d0 < 2 * 2 → ((List.range (2 * 2)).filter (fun l =>
      [1, 2, 3, 4, 3, 4, 1, 2, 2, 1, 4, 3, 4, 3, 2, 1].getD ((bi * 2 + l / 2) * (2 * 2) + (bj * 2 + l % 2)) 0 == d0 + 1)).length = 1 := by
    decide
  refine ⟨by decide, fun i d0 hi hd => h2 i hi d0 hd, fun i d0 hi hd => h3 i hi d0 hd,
    fun bi bj d0 hbi hbj hd => h4 bi hbi bj hbj d0 hd, ?_⟩
  intro c d hc hp
  match c, hc with
  | 0, _ => simp at hp; simp [hp.symm]
  | c + 1, _ => simp at hp


open Puzzles

/-- the cell at position `l` of box (bi, bj) -/
def boxCell (r bi bj l : Nat) : Nat := (bi * r + l / r) * (r * r) + (bj * r + l % r)

theorem boxCell_spec {r bi bj l : Nat} (hbi : bi < r) (hbj : bj < r) (hl : l < r * r) :
    boxCell r bi bj l < r * r * (r * r) ∧ (boxCell r bi bj l / (r * r)) / r = bi ∧ (boxCell r bi bj l % (r * r)) / r = bj := by
  have h := box_cells r bi bj l hbi hbj hl
  simp only [box_index] at h
  exact ⟨cell_lt (box_pos_lt hbi hl) (box_pos_lt' hbj hl), h.2.2.1, h.2.2.2.1⟩

/-- a cell of box (bi, bj) is `boxCell` of some position -/
theorem boxCell_surj {r bi bj c : Nat} (hr : 0 < r) (hc : c < r * r * (r * r))
    (hbi : (c / (r * r)) / r = bi) (hbj : (c % (r * r)) / r = bj) :
    ∃ l, l < r * r ∧ boxCell r bi bj l = c := by
  have hsq : 0 < r * r := Nat.mul_pos hr hr
  have hrow : c / (r * r) < r * r := Nat.div_lt_of_lt_mul hc
  have hcol : c % (r * r) < r * r := Nat.mod_lt _ hsq
  refine ⟨(c / (r * r)) % r * r + (c % (r * r)) % r, ?_, ?_⟩
  · have h1 : (c / (r * r)) % r < r := Nat.mod_lt _ hr
    have h2 : (c % (r * r)) % r < r := Nat.mod_lt _ hr
    have : ((c / (r * r)) % r + 1) * r ≤ r * r := Nat.mul_le_mul_right r h1
    rw [Nat.succ_mul] at this
    omega
  · unfold boxCell
    have h2 : (c % (r * r)) % r < r := Nat.mod_lt _ hr
    have e1 : ((c / (r * r)) % r * r + (c % (r * r)) % r) / r = (c / (r * r)) % r := by
      rw [Nat.add_comm, Nat.add_mul_div_right _ _ hr, Nat.div_eq_of_lt h2]; omega
    have e2 : ((c / (r * r)) % r * r + (c % (r * r)) % r) % r = (c % (r * r)) % r := by
      rw [Nat.add_comm, Nat.add_mul_mod_self_right, Nat.mod_eq_of_lt h2]
    rw [e1, e2, ← hbi, ← hbj]
    have a1 : (c / (r * r)) / r * r + (c / (r * r)) % r = c / (r * r) := by
      rw [Nat.mul_comm]; exact Nat.div_add_mod _ _
    have a2 : (c % (r * r)) / r * r + (c % (r * r)) % r = c % (r * r) := by
      rw [Nat.mul_comm]; exact Nat.div_add_mod _ _
    rw [a1, a2, Nat.mul_comm]
    exact Nat.div_add_mod c (r * r)

theorem boxCell_inj {r bi bj l l' : Nat} (hbi : bi < r) (hbj : bj < r) (hl : l < r * r) (hl' : l' < r * r)
    (h : boxCell r bi bj l = boxCell r bi bj l') : l = l' := by
  apply box_cells_inj r bi bj l l' hbi hbj hl hl'
  simp only [box_index]
  exact h

/-- counting the cells of a box that satisfy `P`: by box index over the whole grid, or by position in the box -/
theorem box_count (r bi bj : Nat) (hbi : bi < r) (hbj : bj < r) (P : Nat → Bool) :
    ((List.range (r * r * (r * r))).filter (fun c => (c / (r * r)) / r * r + (c % (r * r)) / r == bi * r + bj && P c)).length =
    ((List.range (r * r)).filter (fun l => P (boxCell r bi bj l))).length := by
  have hr : 0 < r := by omega
  have hsq : 0 < r * r := Nat.mul_pos hr hr
  -- the cells of the box, two ways
  have hperm : ((List.range (r * r * (r * r))).filter (fun c => (c / (r * r)) / r * r + (c % (r * r)) / r == bi * r + bj)).Perm
      ((List.range (r * r)).map (boxCell r bi bj)) := by
    apply (List.perm_ext_iff_of_nodup ?_ ?_).mpr
    · intro c
      simp only [List.mem_filter, List.mem_range, beq_iff_eq, List.mem_map]
      constructor
      · rintro ⟨hc, hb⟩
        have hrow : c / (r * r) < r * r := Nat.div_lt_of_lt_mul hc
        have hcol : c % (r * r) < r * r := Nat.mod_lt _ hsq
        have d1 : (c / (r * r)) / r < r := Nat.div_lt_of_lt_mul hrow
        have d2 : (c % (r * r)) / r < r := Nat.div_lt_of_lt_mul hcol
        -- base-r digits are unique
        have e2 : (c % (r * r)) / r = bj := by
          have := congrArg (· % r) hb
          simp only [Nat.mul_add_mod_self_right, Nat.add_comm, Nat.add_mul_mod_self_right] at this
          rwa [Nat.mod_eq_of_lt d2, Nat.mod_eq_of_lt hbj] at this
        have e1 : (c / (r * r)) / r = bi := by
          rw [e2] at hb
          have := Nat.add_right_cancel hb
          exact Nat.eq_of_mul_eq_mul_right hr this
        obtain ⟨l, hl, e⟩ := boxCell_surj hr hc e1 e2
        exact ⟨l, hl, e⟩
      · rintro ⟨l, hl, rfl⟩
        obtain ⟨h1, h2, h3⟩ := boxCell_spec hbi hbj hl
        exact ⟨h1, by rw [h2, h3]⟩
    · exact (List.nodup_range).filter _
    · rw [List.nodup_iff_pairwise_ne, List.pairwise_map]
      have hnd : (List.range (r * r)).Pairwise (· ≠ ·) := List.nodup_iff_pairwise_ne.mp List.nodup_range
      exact List.Pairwise.imp_of_mem (fun {a b} ha hb hne e =>
        hne (boxCell_inj hbi hbj (List.mem_range.mp ha) (List.mem_range.mp hb) e)) hnd
  have := (hperm.filter P).length_eq
  rw [List.filter_filter] at this
  rw [List.filter_map, List.length_map] at this
  have e2 : (List.filter (P ∘ boxCell r bi bj) (List.range (r * r))) =
      (List.filter (fun l => P (boxCell r bi bj l)) (List.range (r * r))) := rfl
  rw [← e2, ← this]
  congr 1
  apply List.filter_congr
  intro c _
  rw [Bool.and_comm]


/-- the executable oracle of the correspondence run decides exactly `ValidGrid` -/
theorem isSudoku_iff (r : Nat) (g : Nat → Nat) (givens : List (Option Nat)) :
    isSudoku r g givens = true ↔ ValidGrid r givens g := by
  simp only [isSudoku, ValidGrid, Bool.and_eq_true, List.all_eq_true, List.mem_range, decide_eq_true_eq, beq_iff_eq]
  constructor
  · rintro ⟨⟨⟨h1, h2⟩, h3⟩, h4⟩
    refine ⟨fun c hc => h1 c hc, fun i d0 hi hd => (h2 i hi d0 hd).1, fun i d0 hi hd => (h2 i hi d0 hd).2, ?_, ?_⟩
    · intro bi bj d0 hbi hbj hd
      have hbx : bi * r + bj < r * r := by
        have : (bi + 1) * r ≤ r * r := Nat.mul_le_mul_right r hbi
        rw [Nat.succ_mul] at this; omega
      have := h3 (bi * r + bj) hbx d0 hd
      rw [box_count r bi bj hbi hbj (fun c => g c == d0 + 1)] at this
      exact this
    · intro c d hc hp
      have := h4 c hc
      rw [hp] at this
      simpa using this
  · rintro ⟨h1, h2, h3, h4, h5⟩
    refine ⟨⟨⟨fun c hc => h1 c hc, fun i hi d0 hd => ⟨h2 i d0 hi hd, h3 i d0 hi hd⟩⟩, ?_⟩, ?_⟩
    · intro bx hbx d0 hd
      have hr : 0 < r := by
        rcases Nat.eq_zero_or_pos r with h | h
        · subst h; simp at hbx
        · exact h
      have hbi : bx / r < r := Nat.div_lt_of_lt_mul hbx
      have hbj : bx % r < r := Nat.mod_lt _ hr
      have e : bx = bx / r * r + bx % r := by rw [Nat.mul_comm]; exact (Nat.div_add_mod bx r).symm
      rw [e, box_count r (bx / r) (bx % r) hbi hbj (fun c => g c == d0 + 1)]
      exact h4 (bx / r) (bx % r) d0 hbi hbj hd
    · intro c hc
      cases hp : givens[c]? with
      | none => trivial
      | some o =>
        cases o with
        | none => trivial
        | some d => simp only [beq_iff_eq]; exact h5 c d hc hp

/-- C17 against the executable oracle: the models of the emitted formula are the encodings of the grids the
oracle accepts -/
theorem sudoku_models_bool (r : Nat) (puzzle : List (Option Nat)) (vid : Nat → Nat → Nat) (σ : BDD.Asg)
    (hscope : ∀ c d, c < r * r * (r * r) → puzzle[c]? = some (some d) → 1 ≤ d ∧ d ≤ r * r) :
    Sem (Gen.Sudoku.formula r puzzle vid) FEnv.empty σ ↔ ∃ g, isSudoku r g puzzle = true ∧ Encodes r vid σ g := by
  rw [sudoku_models r puzzle vid σ hscope]
  constructor
  · rintro ⟨g, hv, he⟩; exact ⟨g, (isSudoku_iff r g puzzle).mpr hv, he⟩
  · rintro ⟨g, hv, he⟩; exact ⟨g, (isSudoku_iff r g puzzle).mp hv, he⟩


end Rsbdd.C17
