/-
C14 — Graphviz exports denote the same diagram / syntax tree they were made from.

`Model/Dot.lean` mirrors `BDDGraph` (on pointer-annotated diagrams, C13) and
`SymbolicParseTree`; rendering / label escaping is the external `dot` crate.

PROVED (for every diagram / syntax tree):
 * `nodes_distinct`: the declared nodes have pairwise distinct structures (`unique`), so
   each distinct node is declared exactly once — for a handle of the environment distinct
   structures are distinct shared nodes (`Thm/C13.shared_once`), hence distinct ids;
 * `edges_declared`: every edge of the unfiltered export starts and ends at a declared
   node; the root is declared (`root_declared`);
 * `tree_ids_total`: every `position` lookup of the parse-tree export succeeds — the
   `expect("cannot find position")` cannot fire, for every syntax tree, incl. repeated
   sub-terms.

FULL STATEMENTS (not proved): `dot_denotes` (the read-back decision graph evaluates to
`eval`), `dot_filter` (True/False export = full graph minus the opposite leaf and the edges
into it), `tree_roundtrip` (the read-back term is the syntax tree).  All three are decided
on every generated case by the correspondence run's oracle (read-back evaluation on every
assignment; set comparison of the three exports; term reconstruction).
-/
import Rsbdd.Proofs.Dot
import Rsbdd.Thm.C13

namespace Rsbdd.C14
open Dot

theorem nodes_distinct (flt : BDD.Filter) (r : PBDD) : ((bddNodes flt r).map PBDD.erase).Nodup :=
  bddNodes_distinct flt r

theorem root_declared (r : PBDD) : Declared (bddNodes .any r) r := declared_root r

theorem edges_declared (r : PBDD) (e : Edge) (he : e ∈ bddEdges .any r) :
    Declared (bddNodes .any r) e.1 ∧ Declared (bddNodes .any r) e.2.2 :=
  Dot.edges_declared r e he

/-- for a handle of the environment, a declared node with the structure of an edge end-point
*is* that end-point (same shared node, same id) -/
theorem declared_is_shared {env : Env} {r : PBDD} (hr : Env.Good env.table r) {n m : PBDD}
    (hn : n ∈ Env.subtrees r) (hm : m ∈ Env.subtrees r) (he : m.erase = n.erase) : m = n :=
  C13.shared_once hr hr hm hn he

theorem tree_ids_total (f : Formula) : (parseTree f).isSome = true := parseTree_total f

-- non-vacuity: a syntax tree with a repeated sub-term is exported with the sub-term once
example : ((parseTree (.bin .and (.var 0) (.bin .or (.var 0) (.var 1)))).map (fun g => g.nodes.length)) = some 4 := by
  rfl

end Rsbdd.C14
