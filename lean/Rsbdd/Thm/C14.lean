/-
C14 — Graphviz exports denote the same diagram / syntax tree they were made from.

`Model/Dot.lean` mirrors `BDDGraph` (on pointer-annotated diagrams, C13) and
`SymbolicParseTree`; rendering / label escaping is the external `dot` crate.

PROVED (for every diagram / syntax tree):
 * `nodes_distinct`: the declared nodes have pairwise distinct structures (`unique`), so
   each distinct node is declared exactly once — for a handle of the environment distinct
   structures are distinct shared nodes (`Thm/C13.shared_once`), hence distinct ids;
 * `edges_declared`: every edge of the unfiltered export starts and ends at a declared
   node; the root is declared (`root_declared`);
 * `tree_ids_total`: every `position` lookup of the parse-tree export succeeds — the
   `expect("cannot find position")` cannot fire, for every syntax tree, incl. repeated
   sub-terms.

 * `dot_denotes`: the exported graph of a handle of a reachable environment, read back as a
   decision graph (`gEval`: look the node's label up by id, follow the T or F edge by id), evaluates
   to the function of the diagram, for every assignment.  This uses that distinct structures live at
   distinct addresses (`Env.Inv.addrInj`, maintained by every operation) — node ids are addresses;
 * `nodes_filter` / `edges_filter` (`dot_filter`): with a True or False filter the declared node
   structures are those of the full export minus the opposite leaf, and the edges are those of the
   full export minus the edges into it — for every diagram.

 * `tree_roundtrip` (`Thm/C14T.lean`): the parse-tree export of parser output, read back from the node
   labels (the constructor with its operator / variables / constant — `Head`) and the labelled edges
   alone (`rebuild`: identical sub-terms are one shared node; counting operands are read in label order
   up to the first missing label), is the syntax tree — at every node, in particular at the node of the
   whole formula.  Diagram leaves (`Subtree`, label "BDD") are excluded: the parser never builds them.

Not modelled: the `dot` crate's rendering and label escaping (the harness reads the real DOT text back
and compares with this model's graph on every generated case).
-/
import Rsbdd.Proofs.Dot
import Rsbdd.Thm.C13

namespace Rsbdd.C14
open Dot

theorem nodes_distinct (flt : BDD.Filter) (r : PBDD) : ((bddNodes flt r).map PBDD.erase).Nodup :=
  bddNodes_distinct flt r

theorem root_declared (r : PBDD) : Declared (bddNodes .any r) r := declared_root r

theorem edges_declared (r : PBDD) (e : Edge) (he : e ∈ bddEdges .any r) :
    Declared (bddNodes .any r) e.1 ∧ Declared (bddNodes .any r) e.2.2 :=
  Dot.edges_declared r e he

/-- for a handle of the environment, a declared node with the structure of an edge end-point
*is* that end-point (same shared node, same id) -/
theorem declared_is_shared {env : Env} {r : PBDD} (hr : Env.Good env.table r) {n m : PBDD}
    (hn : n ∈ Env.subtrees r) (hm : m ∈ Env.subtrees r) (he : m.erase = n.erase) : m = n :=
  C13.shared_once hr hr hm hn he

theorem tree_ids_total (f : Formula) : (parseTree f).isSome = true := parseTree_total f

-- non-vacuity: a syntax tree with a repeated sub-term is exported with the sub-term once
example : ((parseTree (.bin .and (.var 0) (.bin .or (.var 0) (.var 1)))).map (fun g => g.nodes.length)) = some 4 := by
  rfl


open Env BDD

/-! ### reading the exported graph back as a decision graph -/

/-- the target of the edge leaving `id` with the given label -/
def gStep (G : BddGraph) (id : NodeId) (flag : Bool) : Option NodeId :=
  (G.edges.find? (fun e => decide (e.1 = id) && (e.2.1 == flag))).map (·.2.2)

def gLabel (G : BddGraph) (id : NodeId) : Option NodeLabel :=
  (G.nodes.find? (fun n => decide (n.1 = id))).map (·.2)

/-- follow the T / F edges from `id` under `σ` down to a leaf -/
def gEval (G : BddGraph) : Nat → NodeId → Asg → Option Bool
  | 0, _, _ => none
  | fuel + 1, id, σ =>
    match gLabel G id with
    | some .true_ => some true
    | some .false_ => some false
    | some (.var v) =>
      match gStep G id (σ v) with
      | some id' => gEval G fuel id' σ
      | none => none
    | none => none

theorem nodes_sub : ∀ (r m : PBDD), m ∈ bddNodes .any r → m ∈ subtrees r
  | .F p, m, h => by simpa [bddNodes, leafPasses, subtrees] using h
  | .T p, m, h => by simpa [bddNodes, leafPasses, subtrees] using h
  | .node p l v f, m, h => by
    simp only [bddNodes] at h
    have hm := mem_of_mem_uniqueBy h
    simp only [List.mem_append, List.mem_cons, List.mem_nil_iff, or_false] at hm
    rcases hm with (hm | rfl) | hm
    · simp [subtrees, nodes_sub l m hm]
    · simp [subtrees]
    · simp [subtrees, nodes_sub f m hm]

theorem declared_of_sub : ∀ (r n : PBDD), n ∈ subtrees r → Declared (bddNodes .any r) n
  | .F p, n, h => by simp [subtrees] at h; subst h; exact declared_root _
  | .T p, n, h => by simp [subtrees] at h; subst h; exact declared_root _
  | .node p l v f, n, h => by
    simp only [subtrees, List.mem_cons, List.mem_append] at h
    rcases h with rfl | h | h
    · exact declared_root _
    · exact declared_of_left (declared_of_sub l n h)
    · exact declared_of_right (declared_of_sub f n h)

/-- every exported edge is a T or F edge of a sub-diagram -/
theorem edges_shape : ∀ (r : PBDD) (e : Edge), e ∈ bddEdges .any r →
    ∃ p l v f, e.1 = .node p l v f ∧ e.1 ∈ subtrees r ∧
      ((e.2.1 = true ∧ e.2.2 = l) ∨ (e.2.1 = false ∧ e.2.2 = f))
  | .F p, e, h => by simp [bddEdges] at h
  | .T p, e, h => by simp [bddEdges] at h
  | .node p l v f, e, h => by
    simp only [bddEdges] at h
    have hm := mem_of_mem_uniqueBy h
    simp only [edgeKept, if_true, List.mem_append, List.mem_cons, List.mem_nil_iff, or_false] at hm
    rcases hm with (hm | hm) | (rfl | rfl)
    · obtain ⟨p', l', v', f', h1, h2, h3⟩ := edges_shape l e hm
      exact ⟨p', l', v', f', h1, by simp [subtrees, h2], h3⟩
    · obtain ⟨p', l', v', f', h1, h2, h3⟩ := edges_shape f e hm
      exact ⟨p', l', v', f', h1, by simp [subtrees, h2], h3⟩
    · exact ⟨p, l, v, f, rfl, by simp [subtrees], Or.inl ⟨rfl, rfl⟩⟩
    · exact ⟨p, l, v, f, rfl, by simp [subtrees], Or.inr ⟨rfl, rfl⟩⟩

/-- both edges of every sub-diagram are exported (up to structure) -/
theorem edges_complete : ∀ (r : PBDD) (p : Nat) (l : PBDD) (v : Nat) (f : PBDD), .node p l v f ∈ subtrees r →
    (∃ e ∈ bddEdges .any r, e.1.erase = (PBDD.node p l v f).erase ∧ e.2.1 = true ∧ e.2.2.erase = l.erase) ∧
    (∃ e ∈ bddEdges .any r, e.1.erase = (PBDD.node p l v f).erase ∧ e.2.1 = false ∧ e.2.2.erase = f.erase)
  | .F q, p, l, v, f, h => by simp [subtrees] at h
  | .T q, p, l, v, f, h => by simp [subtrees] at h
  | .node q a w b, p, l, v, f, h => by
    simp only [subtrees, List.mem_cons, List.mem_append] at h
    have lift : ∀ (e : Edge), e ∈ bddEdges .any a ++ bddEdges .any b ++
        ((if edgeKept .any a then [(PBDD.node q a w b, true, a)] else []) ++
         (if edgeKept .any b then [(PBDD.node q a w b, false, b)] else [])) →
        ∃ e' ∈ bddEdges .any (.node q a w b), (e'.1.erase, e'.2.1, e'.2.2.erase) = (e.1.erase, e.2.1, e.2.2.erase) := by
      intro e he
      simp only [bddEdges]
      exact exists_mem_uniqueBy (key := fun (e : Edge) => (e.1.erase, e.2.1, e.2.2.erase)) he
    have conv : ∀ (flag : Bool) (c : PBDD), (∃ e ∈ bddEdges .any a ++ bddEdges .any b ++
        ((if edgeKept .any a then [(PBDD.node q a w b, true, a)] else []) ++
         (if edgeKept .any b then [(PBDD.node q a w b, false, b)] else [])),
          e.1.erase = (PBDD.node p l v f).erase ∧ e.2.1 = flag ∧ e.2.2.erase = c.erase) →
        ∃ e ∈ bddEdges .any (.node q a w b), e.1.erase = (PBDD.node p l v f).erase ∧ e.2.1 = flag ∧ e.2.2.erase = c.erase := by
      rintro flag c ⟨e, he, h1, h2, h3⟩
      obtain ⟨e', he', hk⟩ := lift e he
      simp only [Prod.mk.injEq] at hk
      exact ⟨e', he', hk.1.trans h1, hk.2.1.trans h2, hk.2.2.trans h3⟩
    rcases h with h | h | h
    · cases h
      constructor
      · exact conv true a ⟨(.node q a w b, true, a), by simp [edgeKept], rfl, rfl, rfl⟩
      · exact conv false b ⟨(.node q a w b, false, b), by simp [edgeKept], rfl, rfl, rfl⟩
    · obtain ⟨⟨e1, he1, x1⟩, ⟨e2, he2, x2⟩⟩ := edges_complete a p l v f h
      exact ⟨conv true l ⟨e1, by simp [he1], x1⟩, conv false f ⟨e2, by simp [he2], x2⟩⟩
    · obtain ⟨⟨e1, he1, x1⟩, ⟨e2, he2, x2⟩⟩ := edges_complete b p l v f h
      exact ⟨conv true l ⟨e1, by simp [he1], x1⟩, conv false f ⟨e2, by simp [he2], x2⟩⟩

theorem subtrees_trans : ∀ (r n m : PBDD), n ∈ subtrees r → m ∈ subtrees n → m ∈ subtrees r
  | .F p, n, m, h1, h2 => by simp [subtrees] at h1; subst h1; exact h2
  | .T p, n, m, h1, h2 => by simp [subtrees] at h1; subst h1; exact h2
  | .node p l v f, n, m, h1, h2 => by
    simp only [subtrees, List.mem_cons, List.mem_append] at h1
    rcases h1 with rfl | h1 | h1
    · exact h2
    · simp [subtrees, subtrees_trans l n m h1 h2]
    · simp [subtrees, subtrees_trans f n m h1 h2]

/-- in a reachable environment, two decision nodes of a handle with the same address are the same node -/
theorem same_addr {env : Env} (hi : Inv env) {r : PBDD} (hr : Good env.table r) {n m : PBDD}
    (hn : n ∈ subtrees r) (hm : m ∈ subtrees r) (h : n.addr = m.addr) : n = m := by
  have e1 := hr n hn
  have e2 := hr m hm
  have := hi.addrInj _ _ _ _ e1 e2 h
  exact C13.shared_once hr hr hn hm this


theorem nodeLabel_of_nodeId {env : Env} (hi : Inv env) {r : PBDD} (hr : Good env.table r) {n m : PBDD}
    (hn : n ∈ subtrees r) (hm : m ∈ subtrees r) (h : nodeId m = nodeId n) : nodeLabel m = nodeLabel n := by
  cases n with
  | T p => cases m <;> simp [nodeId] at h; rfl
  | F p => cases m <;> simp [nodeId] at h; rfl
  | node p l v f =>
    cases m with
    | T q => simp [nodeId] at h
    | F q => simp [nodeId] at h
    | node q a w b =>
      simp only [nodeId, NodeId.at.injEq] at h
      have := same_addr hi hr hm hn (by simp [PBDD.addr, h])
      rw [this]

theorem gLabel_spec {env : Env} (hi : Inv env) {r : PBDD} (hr : Good env.table r) {n : PBDD}
    (hn : n ∈ subtrees r) : gLabel (bddGraph r .any) (nodeId n) = some (nodeLabel n) := by
  unfold gLabel bddGraph
  simp only
  obtain ⟨m, hm, he⟩ := declared_of_sub r n hn
  have hmn : m = n := C13.shared_once hr hr (nodes_sub r m hm) hn he
  subst hmn
  cases hf : ((bddNodes .any r).map (fun n => (nodeId n, nodeLabel n))).find? (fun x => decide (x.1 = nodeId m)) with
  | none =>
    have := List.find?_eq_none.mp hf (nodeId m, nodeLabel m) (List.mem_map.mpr ⟨m, hm, rfl⟩)
    simp at this
  | some x =>
    have hx := List.find?_some hf
    have hmem := List.mem_of_find?_eq_some hf
    obtain ⟨m', hm', rfl⟩ := List.mem_map.mp hmem
    simp only [decide_eq_true_eq] at hx
    simp only [Option.map_some]
    rw [nodeLabel_of_nodeId hi hr hn (nodes_sub r m' hm') hx]

theorem gStep_spec {env : Env} (hi : Inv env) {r : PBDD} (hr : Good env.table r) {p v : Nat} {l f : PBDD}
    (hn : PBDD.node p l v f ∈ subtrees r) (flag : Bool) :
    gStep (bddGraph r .any) (nodeId (.node p l v f)) flag = some (nodeId (if flag then l else f)) := by
  unfold gStep bddGraph
  simp only
  -- some exported edge does the job
  have hex : ∃ e ∈ bddEdges .any r, e.1 = PBDD.node p l v f ∧ e.2.1 = flag := by
    obtain ⟨⟨e1, he1, a1, b1, _⟩, ⟨e2, he2, a2, b2, _⟩⟩ := edges_complete r p l v f hn
    cases flag with
    | true =>
      obtain ⟨_, _, _, _, _, hs, _⟩ := edges_shape r e1 he1
      exact ⟨e1, he1, C13.shared_once hr hr hs hn a1, b1⟩
    | false =>
      obtain ⟨_, _, _, _, _, hs, _⟩ := edges_shape r e2 he2
      exact ⟨e2, he2, C13.shared_once hr hr hs hn a2, b2⟩
  cases hf : ((bddEdges .any r).map (fun e => (nodeId e.1, e.2.1, nodeId e.2.2))).find?
      (fun e => decide (e.1 = nodeId (PBDD.node p l v f)) && (e.2.1 == flag)) with
  | none =>
    obtain ⟨e, he, h1, h2⟩ := hex
    have := List.find?_eq_none.mp hf (nodeId e.1, e.2.1, nodeId e.2.2) (List.mem_map.mpr ⟨e, he, rfl⟩)
    simp [h1, h2] at this
  | some x =>
    have hx := List.find?_some hf
    have hmem := List.mem_of_find?_eq_some hf
    obtain ⟨e, he, rfl⟩ := List.mem_map.mp hmem
    simp only [Bool.and_eq_true, decide_eq_true_eq, beq_iff_eq] at hx
    obtain ⟨q, a, w, b, h1, hs, h3⟩ := edges_shape r e he
    have hsame : e.1 = PBDD.node p l v f := by
      apply same_addr hi hr hs hn
      have := hx.1
      rw [h1] at this ⊢
      simpa [nodeId, PBDD.addr] using this
    rw [h1] at hsame
    cases hsame
    simp only [Option.map_some]
    rcases h3 with ⟨hf1, hf2⟩ | ⟨hf1, hf2⟩
    · rw [← hx.2, hf1, hf2]; rfl
    · rw [← hx.2, hf1, hf2]; rfl

/-- C14, first sentence: the exported graph, read back as a decision graph, evaluates to the function of
the diagram — for every handle of a reachable environment, every sub-diagram and every assignment -/
theorem dot_denotes_sub {env : Env} (hi : Inv env) {r : PBDD} (hr : Good env.table r) (σ : Asg) :
    ∀ (n : PBDD), n ∈ subtrees r → ∀ fuel, n.size ≤ fuel →
      gEval (bddGraph r .any) fuel (nodeId n) σ = some (eval n.erase σ)
  | .T p, hn, fuel, hfu => by
    obtain ⟨k, rfl⟩ : ∃ k, fuel = k + 1 := ⟨fuel - 1, by simp [PBDD.size] at hfu; omega⟩
    simp [gEval, gLabel_spec hi hr hn, nodeLabel, PBDD.erase, eval]
  | .F p, hn, fuel, hfu => by
    obtain ⟨k, rfl⟩ : ∃ k, fuel = k + 1 := ⟨fuel - 1, by simp [PBDD.size] at hfu; omega⟩
    simp [gEval, gLabel_spec hi hr hn, nodeLabel, PBDD.erase, eval]
  | .node p l v f, hn, fuel, hfu => by
    simp only [PBDD.size] at hfu
    obtain ⟨k, rfl⟩ : ∃ k, fuel = k + 1 := ⟨fuel - 1, by omega⟩
    have hl : l ∈ subtrees r := subtrees_trans r _ l hn (by simp [subtrees, self_mem_subtrees])
    have hf : f ∈ subtrees r := subtrees_trans r _ f hn (by simp [subtrees, self_mem_subtrees])
    simp only [gEval, gLabel_spec hi hr hn, nodeLabel, gStep_spec hi hr hn, PBDD.erase, eval]
    cases hσ : σ v with
    | true => simpa using dot_denotes_sub hi hr σ l hl k (by omega)
    | false => simpa using dot_denotes_sub hi hr σ f hf k (by omega)

theorem dot_denotes {env : Env} (hi : Inv env) {r : PBDD} (hr : Good env.table r) (σ : Asg) :
    gEval (bddGraph r .any) r.size (nodeId r) σ = some (eval r.erase σ) :=
  dot_denotes_sub hi hr σ r (self_mem_subtrees r) r.size (Nat.le_refl _)


/-! ### filtered exports -/

/-- the structure of the leaf a filter omits -/
def omitted : BDD.Filter → Option BDD
  | .any => none
  | .true_ => some .F
  | .false_ => some .T

theorem leafPasses_T (flt : BDD.Filter) : leafPasses flt true = true ↔ omitted flt ≠ some BDD.T := by
  cases flt <;> simp [leafPasses, omitted]
theorem leafPasses_F (flt : BDD.Filter) : leafPasses flt false = true ↔ omitted flt ≠ some BDD.F := by
  cases flt <;> simp [leafPasses, omitted]

/-- the declared node structures of a filtered export are those of the full export minus the omitted leaf -/
theorem nodes_filter (flt : BDD.Filter) : ∀ (r : PBDD) (k : BDD),
    (∃ m ∈ bddNodes flt r, m.erase = k) ↔ ((∃ m ∈ bddNodes .any r, m.erase = k) ∧ omitted flt ≠ some k)
  | .T p, k => by
    cases flt <;> simp [bddNodes, leafPasses, omitted, PBDD.erase]
    all_goals (try (intro h; subst h; simp))
  | .F p, k => by
    cases flt <;> simp [bddNodes, leafPasses, omitted, PBDD.erase]
    all_goals (try (intro h; subst h; simp))
  | .node p l v f, k => by
    have ihl := nodes_filter flt l k
    have ihf := nodes_filter flt f k
    have key : ∀ (g : BDD.Filter), (∃ m ∈ bddNodes g (.node p l v f), m.erase = k) ↔
        ((∃ m ∈ bddNodes g l, m.erase = k) ∨ (PBDD.node p l v f).erase = k ∨ (∃ m ∈ bddNodes g f, m.erase = k)) := by
      intro g
      simp only [bddNodes]
      constructor
      · rintro ⟨m, hm, he⟩
        have := mem_of_mem_uniqueBy hm
        simp only [List.mem_append, List.mem_cons, List.mem_nil_iff, or_false] at this
        rcases this with (h | rfl) | h
        · exact Or.inl ⟨m, h, he⟩
        · exact Or.inr (Or.inl he)
        · exact Or.inr (Or.inr ⟨m, h, he⟩)
      · intro h
        have lift : ∀ x, x ∈ bddNodes g l ++ [PBDD.node p l v f] ++ bddNodes g f → x.erase = k →
            ∃ m ∈ uniqueBy PBDD.erase (bddNodes g l ++ [PBDD.node p l v f] ++ bddNodes g f), m.erase = k := by
          intro x hx he
          obtain ⟨y, hy, hk⟩ := exists_mem_uniqueBy (key := PBDD.erase) hx
          exact ⟨y, hy, hk.trans he⟩
        rcases h with ⟨m, hm, he⟩ | he | ⟨m, hm, he⟩
        · exact lift m (by simp [hm]) he
        · exact lift _ (by simp) he
        · exact lift m (by simp [hm]) he
    rw [key flt, key .any, ihl, ihf]
    constructor
    · rintro (⟨h, ho⟩ | h | ⟨h, ho⟩)
      · exact ⟨Or.inl h, ho⟩
      · refine ⟨Or.inr (Or.inl h), ?_⟩
        rw [← h]; cases flt <;> simp [omitted, PBDD.erase]
      · exact ⟨Or.inr (Or.inr h), ho⟩
    · rintro ⟨h | h | h, ho⟩
      · exact Or.inl ⟨h, ho⟩
      · exact Or.inr (Or.inl h)
      · exact Or.inr (Or.inr ⟨h, ho⟩)


theorem edgeKept_iff (flt : BDD.Filter) (c : PBDD) : edgeKept flt c = true ↔ omitted flt ≠ some c.erase := by
  cases flt <;> cases c <;> simp [edgeKept, omitted, PBDD.erase]

/-- structural key of an edge -/
def ekey (e : Edge) : BDD × Bool × BDD := (e.1.erase, e.2.1, e.2.2.erase)

/-- the edges of a filtered export are those of the full export minus the edges into the omitted leaf -/
theorem edges_filter (flt : BDD.Filter) : ∀ (r : PBDD) (t : BDD × Bool × BDD),
    (∃ e ∈ bddEdges flt r, ekey e = t) ↔ ((∃ e ∈ bddEdges .any r, ekey e = t) ∧ omitted flt ≠ some t.2.2)
  | .T p, t => by simp [bddEdges]
  | .F p, t => by simp [bddEdges]
  | .node p l v f, t => by
    have ihl := edges_filter flt l t
    have ihf := edges_filter flt f t
    have key : ∀ (g : BDD.Filter), (∃ e ∈ bddEdges g (.node p l v f), ekey e = t) ↔
        ((∃ e ∈ bddEdges g l, ekey e = t) ∨ (∃ e ∈ bddEdges g f, ekey e = t) ∨
         (edgeKept g l = true ∧ ekey (PBDD.node p l v f, true, l) = t) ∨
         (edgeKept g f = true ∧ ekey (PBDD.node p l v f, false, f) = t)) := by
      intro g
      simp only [bddEdges]
      constructor
      · rintro ⟨e, he, hk⟩
        have := mem_of_mem_uniqueBy he
        simp only [List.mem_append] at this
        rcases this with (h | h) | (h | h)
        · exact Or.inl ⟨e, h, hk⟩
        · exact Or.inr (Or.inl ⟨e, h, hk⟩)
        · by_cases c : edgeKept g l = true
          · simp only [c, if_true, List.mem_cons, List.not_mem_nil, or_false] at h
            subst h; exact Or.inr (Or.inr (Or.inl ⟨c, hk⟩))
          · simp [c] at h
        · by_cases c : edgeKept g f = true
          · simp only [c, if_true, List.mem_cons, List.not_mem_nil, or_false] at h
            subst h; exact Or.inr (Or.inr (Or.inr ⟨c, hk⟩))
          · simp [c] at h
      · intro h
        have lift : ∀ x, x ∈ bddEdges g l ++ bddEdges g f ++
            ((if edgeKept g l = true then [(PBDD.node p l v f, true, l)] else []) ++
             (if edgeKept g f = true then [(PBDD.node p l v f, false, f)] else [])) → ekey x = t →
            ∃ e ∈ uniqueBy (fun (e : Edge) => (e.1.erase, e.2.1, e.2.2.erase)) (bddEdges g l ++ bddEdges g f ++
              ((if edgeKept g l = true then [(PBDD.node p l v f, true, l)] else []) ++
               (if edgeKept g f = true then [(PBDD.node p l v f, false, f)] else []))), ekey e = t := by
          intro x hx hk
          obtain ⟨y, hy, hky⟩ := exists_mem_uniqueBy (key := fun (e : Edge) => (e.1.erase, e.2.1, e.2.2.erase)) hx
          exact ⟨y, hy, hky.trans hk⟩
        rcases h with ⟨e, he, hk⟩ | ⟨e, he, hk⟩ | ⟨c, hk⟩ | ⟨c, hk⟩
        · exact lift e (by simp [he]) hk
        · exact lift e (by simp [he]) hk
        · exact lift _ (by simp [c]) hk
        · exact lift _ (by simp [c]) hk
    rw [key flt, key .any, ihl, ihf]
    simp only [edgeKept_iff, omitted, ne_eq, not_false_eq_true, true_and, reduceCtorEq]
    constructor
    · rintro (⟨h, ho⟩ | ⟨h, ho⟩ | ⟨ho, h⟩ | ⟨ho, h⟩)
      · exact ⟨Or.inl h, ho⟩
      · exact ⟨Or.inr (Or.inl h), ho⟩
      · refine ⟨Or.inr (Or.inr (Or.inl h)), ?_⟩
        rw [← h]; exact ho
      · refine ⟨Or.inr (Or.inr (Or.inr h)), ?_⟩
        rw [← h]; exact ho
    · rintro ⟨h | h | h | h, ho⟩
      · exact Or.inl ⟨h, ho⟩
      · exact Or.inr (Or.inl ⟨h, ho⟩)
      · refine Or.inr (Or.inr (Or.inl ⟨?_, h⟩))
        rw [← h] at ho; exact ho
      · refine Or.inr (Or.inr (Or.inr ⟨?_, h⟩))
        rw [← h] at ho; exact ho


end Rsbdd.C14
