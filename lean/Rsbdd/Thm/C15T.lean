/-
C15, the text level: the bytes `n_queens_gen` writes (`Model/Gen/QueensText.lean`, compared byte for byte
with the real output on every run as a recorded tie) are read by the tokenizer and the parser as exactly
`Queens.formula n`, for every n and every version string without a double quote:

 * `queens_text_tokens` — under the ordering that numbers the name `v_k` as `k`, tokenizing the text
   gives the canonical token list (`Proofs/QueensLex.lean`: the scanner on comments, blank lines,
   `[v_a,v_b,…,] <= 1 &` lines and the closing `true`; decimal cell numbers are runs of `\d`, so
   `v_<k>` is one name, followed by a comma; `Proofs/ScanStep.lean`: the scanner without fuel);
 * `queens_text_parses` — that token list is a sentence of the grammar with tree `Queens.formula n`
   (`Proofs/QueensParse.lean`), so the parser returns it (`C08.parse_complete`);
 * `queens_text_solved` — with `queens_correct` (C15) and the termination of the evaluator: solving the
   bytes yields a diagram that is true exactly on the placements of n non-attacking queens.

The character classes are `asciiCls` (the text is ASCII; the harness pins `asciiCls` against the regex
crate).  For another ordering (in particular the default one) the answer is the same function of the
*names* by `C11.meaning_invariant`.
-/
import Rsbdd.Proofs.QueensCanon
namespace Rsbdd.C15
open Parser Gen.Queens C11 Grammar Formula BDD

/-- MAIN, lexical half: under the ordering that numbers `v_k` as `k`, the tokenizer reads the
generator's output as the canonical token list -/
theorem queens_text_tokens (version : String) (hv : '"' ∉ version.toList) (n : Nat) :
    tokenize (chs (text version n)) (cellOrdering n) =
      some (((constraints n).flatMap lineToks ++ [Token.true_]) ++ [Token.eof]) := by
  have hlook : ∀ c ∈ constraints n, ∀ k ∈ c.cells, (VarTable.preload (cellOrdering n)).lookup (cellStr k) = some k := by
    intro c hc k hk
    apply preload_lookup (cellOrdering_ok n)
    simp only [cellOrdering, List.mem_map, List.mem_flatMap]
    exact ⟨k, ⟨c, hc, hk⟩, rfl⟩
  unfold tokenize
  have hscan : scan ((chs (text version n)).length + 1) (chs (text version n)) = lexAll (chs (text version n)) := by
    simp only [lexAll]
  rw [hscan, lex_text version hv n]
  generalize VarTable.preload (cellOrdering n) = vt at hlook ⊢
  generalize hcs : constraints n = cs at hlook ⊢
  have hshape : ∀ c ∈ cs, c.bound = 1 ∧ (c.op = .atMost ∨ c.op = .exactly) := by
    rw [← hcs]; exact constraints_shape n
  have e1 : (cs.flatMap lineLex).map (tokOf vt) = cs.flatMap lineToks := by
    have aux : ∀ l : List Constraint, (∀ c ∈ l, c ∈ cs) → (l.flatMap lineLex).map (tokOf vt) = l.flatMap lineToks := by
      intro l
      induction l with
      | nil => intro _; rfl
      | cons c l ih =>
        intro hl
        have hc := hl c (by simp)
        simp only [List.flatMap_cons, List.map_append]
        rw [tok_line _ c (hshape c hc).2 (hlook c hc), ih (fun c' hc' => hl c' (by simp [hc']))]
    exact aux cs (fun _ h => h)
  have e2 : tokOf vt (Lexeme.ident "true") = Token.true_ := by simp [tokOf, keywordTable]
  rw [toTokens_fixed]
  · simp only [Option.map_some, List.map_append, List.map_cons, List.map_nil, e1, e2]
  · intro name hm hnk
    rcases List.mem_append.mp hm with hm | hm
    · obtain ⟨c, hc, hcm⟩ := List.mem_flatMap.mp hm
      obtain ⟨k, hk, rfl⟩ := ident_mem_lineLex hcm
      rw [hlook c hc k hk]; rfl
    · simp only [List.mem_singleton, Lexeme.ident.injEq] at hm
      subst hm
      exact absurd hnk (by unfold NotKeyword; decide)
  · intro ds hm
    rcases List.mem_append.mp hm with hm | hm
    · obtain ⟨c, _, hcm⟩ := List.mem_flatMap.mp hm
      rw [num_mem_lineLex hcm]; decide
    · simp at hm

/-- MAIN: read under that ordering, the generator's output parses to exactly `Queens.formula n` -/
theorem queens_text_parses (version : String) (hv : '"' ∉ version.toList) (n : Nat) :
    ∃ ts, tokenize (chs (text version n)) (cellOrdering n) = some ts ∧ parseFormula ts = some (formula n) := by
  refine ⟨_, queens_text_tokens version hv n, ?_⟩
  apply C08.parse_complete
  exact ⟨_, rfl, sub_lines (constraints n) (constraints_shape n)⟩

/-- hence, for every n ≥ 1 and every version string: parsing and solving the bytes the generator writes
yields a diagram that is true exactly on the placements of n non-attacking queens -/
theorem queens_text_solved (version : String) (hv : '"' ∉ version.toList) (n : Nat) (hn : 1 ≤ n) (iters : Nat) :
    ∃ ts f b, tokenize (chs (text version n)) (cellOrdering n) = some ts ∧ parseFormula ts = some f ∧
      evalF iters (depth f) f = some b ∧ ROBDD b ∧ ∀ σ, (eval b σ = true ↔ NQueens n σ) := by
  obtain ⟨ts, ht, hp⟩ := queens_text_parses version hv n
  obtain ⟨b, hb, hr, hs⟩ := queens_solved n hn iters
  exact ⟨ts, formula n, b, ht, hp, hb, hr, hs⟩

-- non-vacuity: the text for n = 1 and what it is read as
example : tokenize (chs (text "0.1.0" 1)) (cellOrdering 1) =
    some ([Token.openSquare, .var "v_0" 0, .comma, .closeSquare, .impliesInv, .countable 1, .and,
           .openSquare, .var "v_0" 0, .comma, .closeSquare, .impliesInv, .countable 1, .and,
           .openSquare, .var "v_0" 0, .comma, .closeSquare, .eq, .countable 1, .and,
           .openSquare, .var "v_0" 0, .comma, .closeSquare, .eq, .countable 1, .and, .true_, .eof]) := by
  decide +kernel

end Rsbdd.C15
