/-
C16 against the executable oracle of the correspondence run: `Puzzles.isClique`,
`Puzzles.maxCliqueSize` (brute force over `Puzzles.subsetsOf`) decide exactly the `Prop`
notions `IsClique` / "no clique is larger" that `clique_max` and `clique_all_*` are stated with.
So the statement the run checks on every generated graph is the statement that is proved.
-/
import Rsbdd.Thm.C16
import Rsbdd.Spec.Puzzles

namespace Rsbdd.C16
open Puzzles BDD Gen.Clique

/-- adjacency as a test (the driver's `adj`) -/
abbrev adjB := Puzzles.adjOf

theorem adjB_iff (edges : List (Nat × Nat)) (u : Bool) (a b : Nat) : adjB edges u a b = true ↔ Adj edges u a b := by
  cases u <;> simp [adjB, adjOf, Adj]

/-- the executable clique test on the selected vertices is `IsClique` -/
theorem isClique_iff (edges : List (Nat × Nat)) (u : Bool) (vs : List Nat) (S : Nat → Bool) :
    isClique (adjB edges u) (vs.filter S) = true ↔ IsClique edges u vs S := by
  simp only [isClique, List.all_eq_true, List.mem_filter, Bool.or_eq_true, beq_iff_eq, IsClique, and_imp]
  constructor
  · intro h a ha b hb hne sa sb
    rcases h a ha sa b hb sb with e | e
    · exact absurd e hne
    · exact (adjB_iff ..).mp e
  · intro h a ha sa b hb sb
    by_cases e : a = b
    · exact Or.inl e
    · exact Or.inr ((adjB_iff ..).mpr (h a ha b hb e sa sb))

theorem filter_mem_subsetsOf (T : Nat → Bool) : ∀ vs : List Nat, vs.filter T ∈ subsetsOf vs := by
  intro vs
  induction vs with
  | nil => simp [subsetsOf]
  | cons x xs ih =>
    simp only [subsetsOf, List.mem_append, List.mem_map]
    cases hT : T x
    · left; simpa [hT] using ih
    · right; exact ⟨xs.filter T, ih, by simp [List.filter_cons, hT]⟩

theorem subsetsOf_sublist : ∀ (vs s : List Nat), s ∈ subsetsOf vs → s.Sublist vs := by
  intro vs
  induction vs with
  | nil => intro s hs; simp [subsetsOf] at hs; subst hs; exact List.Sublist.slnil
  | cons x xs ih =>
    intro s hs
    simp only [subsetsOf, List.mem_append, List.mem_map] at hs
    rcases hs with h | ⟨t, ht, rfl⟩
    · exact (ih s h).cons x
    · exact (ih t ht).cons_cons x

/-- a duplicate-free sublist is the filter of its own membership test -/
theorem sublist_eq_filter : ∀ (vs s : List Nat), vs.Nodup → s.Sublist vs → vs.filter (fun v => decide (v ∈ s)) = s := by
  intro vs
  induction vs with
  | nil => intro s _ h; cases h; rfl
  | cons x xs ih =>
    intro s hnd h
    have hx : x ∉ xs := (List.nodup_cons.mp hnd).1
    have hxs := (List.nodup_cons.mp hnd).2
    cases h with
    | cons _ h' =>
      have : x ∉ s := fun hm => hx (h'.subset hm)
      simp only [List.filter_cons, this, decide_false, Bool.false_eq_true, if_false]
      exact ih s hxs h'
    | cons_cons _ h' =>
      rename_i t
      have hxt : x ∉ t := fun hm => hx (h'.subset hm)
      have e : xs.filter (fun v => decide (v ∈ x :: t)) = xs.filter (fun v => decide (v ∈ t)) := by
        apply List.filter_congr
        intro v hv
        have : v ≠ x := fun e => hx (e ▸ hv)
        simp [this]
      rw [List.filter_cons]
      simp only [List.mem_cons, true_or, decide_true, if_true]
      simp only [List.mem_cons] at e
      rw [e, ih t hxs h']

theorem foldl_max_ge (l : List (List Nat)) : ∀ (m : Nat),
    m ≤ l.foldl (fun m s => max m s.length) m ∧ ∀ s ∈ l, s.length ≤ l.foldl (fun m s => max m s.length) m := by
  induction l with
  | nil => intro m; simp
  | cons x xs ih =>
    intro m
    simp only [List.foldl_cons, List.mem_cons]
    obtain ⟨h1, h2⟩ := ih (max m x.length)
    refine ⟨by omega, ?_⟩
    intro s hs
    rcases hs with rfl | hs
    · omega
    · exact h2 s hs

theorem foldl_max_attained (l : List (List Nat)) : ∀ (m : Nat),
    l.foldl (fun m s => max m s.length) m = m ∨ ∃ s ∈ l, s.length = l.foldl (fun m s => max m s.length) m := by
  induction l with
  | nil => intro m; simp
  | cons x xs ih =>
    intro m
    simp only [List.foldl_cons, List.mem_cons]
    rcases ih (max m x.length) with h | ⟨s, hs, he⟩
    · rw [h]
      by_cases hle : x.length ≤ m
      · left; omega
      · right; exact ⟨x, Or.inl rfl, by omega⟩
    · right; exact ⟨s, Or.inr hs, he⟩

/-- the brute-force maximum is an upper bound for every clique and is attained by one -/
theorem maxCliqueSize_spec (edges : List (Nat × Nat)) (u : Bool) (vs : List Nat) (hnd : vs.Nodup) :
    (∀ T : Nat → Bool, IsClique edges u vs T → (vs.filter T).length ≤ maxCliqueSize (adjB edges u) vs) ∧
    ∃ T : Nat → Bool, IsClique edges u vs T ∧ (vs.filter T).length = maxCliqueSize (adjB edges u) vs := by
  constructor
  · intro T hT
    unfold maxCliqueSize
    apply (foldl_max_ge _ 0).2
    simp only [List.mem_filter]
    exact ⟨filter_mem_subsetsOf T vs, (isClique_iff edges u vs T).mpr hT⟩
  · unfold maxCliqueSize
    rcases foldl_max_attained ((subsetsOf vs).filter (isClique (adjB edges u))) 0 with h | ⟨s, hs, he⟩
    · refine ⟨fun _ => false, ?_, by rw [h]; simp⟩
      intro a _ b _ _ sa; simp at sa
    · simp only [List.mem_filter] at hs
      have hsub := subsetsOf_sublist vs s hs.1
      have hf := sublist_eq_filter vs s hnd hsub
      refine ⟨fun v => decide (v ∈ s), ?_, by rw [hf]; exact he⟩
      apply (isClique_iff edges u vs _).mp
      rw [hf]; exact hs.2

/-- C16 (without `--all`) against the executable oracle: the formula holds exactly when the
selected vertices pass `isClique` and are as many as `maxCliqueSize` -/
theorem clique_max_bool (edges : List (Nat × Nat)) (vs : List Nat) (u : Bool) (vid cid : Nat → Nat) (σ : Asg)
    (hnd : vs.Nodup)
    (hcid : ∀ a ∈ vs, ∀ b ∈ vs, cid a = cid b → a = b)
    (hdisj : ∀ a ∈ vs, ∀ b ∈ vs, vid a ≠ cid b) :
    Sem (formula edges vs u false vid cid) FEnv.empty σ ↔
      (isClique (adjB edges u) (vs.filter (fun v => σ (vid v))) = true ∧
       (vs.filter (fun v => σ (vid v))).length = maxCliqueSize (adjB edges u) vs) := by
  rw [clique_max edges vs u vid cid σ hcid hdisj, isClique_iff]
  obtain ⟨hub, T0, hT0, hlen⟩ := maxCliqueSize_spec edges u vs hnd
  constructor
  · rintro ⟨hc, hmax⟩
    refine ⟨hc, ?_⟩
    have h1 := hub _ hc
    have h2 := hmax T0 hT0
    omega
  · rintro ⟨hc, he⟩
    exact ⟨hc, fun T hT => by rw [he]; exact hub T hT⟩

/-- C16 with `--all` against the executable oracle: the models are exactly the vertex sets that
pass `isClique` (the empty set and singletons included) -/
theorem clique_all_bool (edges : List (Nat × Nat)) (vs : List Nat) (u : Bool) (vid cid : Nat → Nat) (σ : Asg) :
    Sem (formula edges vs u true vid cid) FEnv.empty σ ↔
      isClique (adjB edges u) (vs.filter (fun v => σ (vid v))) = true := by
  rw [isClique_iff]
  cases u with
  | false => rw [clique_all_directed]; simp [IsClique, Adj]
  | true => rw [clique_all_undirected]; simp [IsClique, Adj]

-- the oracle on the path b–a–c: maximum clique size 2
example : maxCliqueSize (adjB [(0, 1), (0, 2)] true) [0, 1, 2] = 2 := by decide

end Rsbdd.C16
