#!/bin/sh
# Build the framework from files on disk only (offline): the Lean library, every theorem
# module, the compiled driver, the Rust harness and /repo's workspace binaries.
set -e
cd "$(dirname "$0")"
export CARGO_NET_OFFLINE=true
export CARGO_TARGET_DIR="$PWD/.build/target"
mkdir -p .build/run
(cd lean && lake build Rsbdd driver)
(cd harness && cargo build --offline)
(cd /repo && cargo build --offline --workspace --bins)
echo "setup complete"
