#!/bin/bash
# every quick check against each behaviour-preserving refactoring (patches /tmp/seedH-<id>/patch.diff, worktrees
# /tmp/wtH-<id>); serial.  usage: tools/batch_harmless.sh H01 H02 …  -> /tmp/harmless-results/<id>.log + summary.txt
cd ${VERIF_HOME:-/verif}
mkdir -p /tmp/harmless-results
for id in "$@"; do
  wt=/tmp/wtH-$id
  git -C $wt checkout -q -- . ; git -C $wt clean -fdq -e target
  if ! git -C $wt apply /tmp/seedH-$id/patch.diff; then echo "$id PATCH-DOES-NOT-APPLY" >> /tmp/harmless-results/summary.txt; continue; fi
  tools/try_harmless.sh $wt $id
  echo "$id: $(grep -c VIOLATION /tmp/harmless-results/$id.log) violations, $(grep -c '^\[' /tmp/harmless-results/$id.log) checks" >> /tmp/harmless-results/summary.txt
done
echo BATCH-DONE >> /tmp/harmless-results/summary.txt
