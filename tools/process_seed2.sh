#!/bin/bash
# verify + try round-2 seeds, serially; log to /tmp/seed2-results/<id>.log
R=${R:-2}; export R; mkdir -p /tmp/seed$R-results
for id in "$@"; do
  { echo "######## $id"; tools/verify_seed2.sh $id; echo "== checks on /repo with the patch"; tools/try_seed.sh /tmp/seed$R-$id/patch.diff $id; } > /tmp/seed$R-results/$id.log 2>&1
done
echo ALLDONE
