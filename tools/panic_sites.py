#!/usr/bin/env python3
"""Inventory of panic-capable constructs on the input path of the rsbdd tool (C12 source pin).
   usage: panic_sites.py scan            print the current inventory as JSON
          panic_sites.py compare FILE    compare with a committed inventory; exit 1 + diff on mismatch

   What is pinned is the SHAPE of every construct, per file: its kind and the construct itself with the
   identifiers blanked (`_[0]`, `_[1..]`, `_ - 1`, `.expect("message")`, `panic!("message"`), as a multiset.
   Renaming a variable, moving a statement or re-wrapping a line keeps the shapes; a new unwrap, a new kind of
   slice, another arithmetic on a length does not.  Index shapes: `_[0]` (constant), `_[_]` (expression),
   `_[1.._]`, `_[_..]`, … (ranges).  A change of the exact text with unchanged shapes, and a construct that is gone,
   are printed as a NOTE (exit 0): only a NEW shape breaks the pin."""
import json, re, sys, os
REPO = os.environ.get("VERIF_REPO") or "/repo"   # VERIF_REPO: development aid, see ./check
FILES = ["src/parser.rs", "src/bdd.rs", "src/bin/rsbdd.rs", "src/truth_table.rs", "src/bdd_io.rs",
         "src/parser_io.rs", "src/symbols.rs"]
KINDS = [
    ("unwrap", re.compile(r"\.unwrap\(\)")),
    ("expect", re.compile(r"\.expect\(")),
    ("unwrap_or_else_panic", re.compile(r"unwrap_or_else\(\|[^|]*\|\s*panic!")),
    ("panic", re.compile(r"\bpanic!\(")),
    ("unreachable", re.compile(r"\bunreachable!\(")),
    ("unimplemented", re.compile(r"\bunimplemented!\(|\btodo!\(")),
    ("assert", re.compile(r"\bassert(_eq|_ne)?!\(")),
    ("index", re.compile(r"[A-Za-z_)\]]\[[^\]#]+\]")),
    ("cast", re.compile(r"\bas (i64|usize|u32|u64|i32)\b")),
    ("arith", re.compile(r"[a-z0-9_)\]] [-+*] (1|[a-z_(])")),
    ("borrow_mut", re.compile(r"\.borrow_mut\(\)|\.replace\(")),
]
def strip_comments(line):
    # drop // comments (not inside string literals: good enough for this code base)
    out, in_str, i = [], False, 0
    while i < len(line):
        c = line[i]
        if c == '"' and (i == 0 or line[i-1] != '\\'): in_str = not in_str
        if not in_str and line.startswith("//", i): break
        out.append(c); i += 1
    return "".join(out)
def scan():
    sites = []
    for f in FILES:
        p = os.path.join(REPO, f)
        if not os.path.exists(p): continue
        lines = open(p, encoding="utf-8", errors="replace").read().split("\n")
        for ln, line in enumerate(lines):
            code = strip_comments(line).strip()
            # a macro call / expect whose message is on the following line(s): join them (line wrapping is not a change)
            k = ln
            while code.endswith("(") and re.search(r"(panic|unreachable|unimplemented|todo|assert(_eq|_ne)?)!\($|\.expect\($", code) and k + 1 < len(lines) and k < ln + 3:
                k += 1
                code = code + strip_comments(lines[k]).strip()
            if not code or code.startswith("#[") or code.startswith("use "): continue
            for kind, rx in KINDS:
                if rx.search(code):
                    if kind == "index" and re.search(r"vec!\[|&\[|: \[|\[\]|-> \[", code) and not re.search(r"[a-z_]\[[a-z0-9_ ./*+()-]+\]", code): continue
                    if kind == "arith" and re.search(r"format!|println!|eprintln!|write", code) and not re.search(r"[a-z_)] [-+*] (1|[a-z(])", code): continue
                    sites.append({"file": f, "kind": kind, "code": re.sub(r"\s+", " ", code)})
    return sites
def key(s): return (s["file"], s["kind"], s["code"])
_STR = re.compile(r'"(?:[^"\\]|\\.)*"')
def shape(s):
    """the construct with identifiers blanked; string literals (messages) are kept"""
    kind, code = s["kind"], s["code"]
    rx = dict(KINDS)[kind]
    m = rx.search(code)
    frag = code[m.start():] if m else code
    if kind in ("panic", "unreachable", "unimplemented", "assert", "expect", "unwrap_or_else_panic"):
        lit = _STR.search(frag)
        return kind + (":" + lit.group(0) if lit else "")
    if kind == "index":
        # the bracket expression, identifiers blanked
        b = re.search(r"\[[^\]#]+\]", frag)
        inner = (b.group(0) if b else frag)[1:-1].strip()
        # constant index / constant range bound / general expression, and whether it is a range
        def part(e):
            e = e.strip()
            return "" if e == "" else (e if re.fullmatch(r"[0-9]+", e) else "_")
        if ".." in inner:
            lo, hi = inner.split("..", 1)
            return "_[%s..%s]" % (part(lo), part(hi.lstrip("=")))
        return "_[%s]" % part(inner)
    if kind == "arith":
        m2 = re.search(r" ([-+*]) (1\b)?", frag)
        return "_ %s %s" % (m2.group(1), "1" if m2 and m2.group(2) else "_") if m2 else "_ ? _"
    if kind == "cast":
        m2 = re.search(r"\bas (i64|usize|u32|u64|i32)\b", frag)
        return "as " + m2.group(1)
    return kind
def skey(s): return (s["file"], s["kind"], shape(s))
if __name__ == "__main__":
    if sys.argv[1] == "scan":
        json.dump(scan(), sys.stdout, indent=1)
    else:
        want = json.load(open(sys.argv[2]))["sites"]
        have = scan()
        from collections import Counter
        cw, ch = Counter(key(s) for s in want), Counter(key(s) for s in have)
        added = list((ch - cw).elements()); removed = list((cw - ch).elements())
        sw, sh_ = Counter(skey(s) for s in want), Counter(skey(s) for s in have)
        sadded = list((sh_ - sw).elements()); sremoved = list((sw - sh_).elements())
        if sadded:
            for a in sadded: print("NEW panic-capable construct (file, kind, shape):", a)
            for r in sremoved: print("gone (file, kind, shape):", r)
            for a in added: print("  new text:", a)
            for r in removed: print("  old text:", r)
            sys.exit(1)
        if added or removed or sremoved:
            print(f"NOTE: {len(added)} panic-capable line(s) changed their text, {len(sremoved)} construct(s) are gone; no new shape ({len(have)} sites)")
            for a in added: print("  new text:", a)
        else:
            print(f"panic-site inventory matches ({len(have)} sites)")
