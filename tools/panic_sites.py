#!/usr/bin/env python3
"""Inventory of panic-capable constructs on the input path of the rsbdd tool (C12 source pin).
   usage: panic_sites.py scan            print the current inventory as JSON
          panic_sites.py compare FILE    compare with a committed inventory; exit 1 + diff on mismatch"""
import json, re, sys, os
REPO = os.environ.get("VERIF_REPO") or "/repo"   # VERIF_REPO: development aid, see ./check
FILES = ["src/parser.rs", "src/bdd.rs", "src/bin/rsbdd.rs", "src/truth_table.rs", "src/bdd_io.rs",
         "src/parser_io.rs", "src/symbols.rs"]
KINDS = [
    ("unwrap", re.compile(r"\.unwrap\(\)")),
    ("expect", re.compile(r"\.expect\(")),
    ("unwrap_or_else_panic", re.compile(r"unwrap_or_else\(\|[^|]*\|\s*panic!")),
    ("panic", re.compile(r"\bpanic!\(")),
    ("unreachable", re.compile(r"\bunreachable!\(")),
    ("unimplemented", re.compile(r"\bunimplemented!\(|\btodo!\(")),
    ("assert", re.compile(r"\bassert(_eq|_ne)?!\(")),
    ("index", re.compile(r"[A-Za-z_)\]]\[[^\]#]+\]")),
    ("cast", re.compile(r"\bas (i64|usize|u32|u64|i32)\b")),
    ("arith", re.compile(r"[A-Za-z_)\]] [-+*] (1|[A-Za-z_(])")),
    ("borrow_mut", re.compile(r"\.borrow_mut\(\)|\.replace\(")),
]
def strip_comments(line):
    # drop // comments (not inside string literals: good enough for this code base)
    out, in_str, i = [], False, 0
    while i < len(line):
        c = line[i]
        if c == '"' and (i == 0 or line[i-1] != '\\'): in_str = not in_str
        if not in_str and line.startswith("//", i): break
        out.append(c); i += 1
    return "".join(out)
def scan():
    sites = []
    for f in FILES:
        p = os.path.join(REPO, f)
        if not os.path.exists(p): continue
        for line in open(p, encoding="utf-8", errors="replace"):
            code = strip_comments(line).strip()
            if not code or code.startswith("#[") or code.startswith("use "): continue
            for kind, rx in KINDS:
                if rx.search(code):
                    if kind == "index" and re.search(r"vec!\[|&\[|: \[|\[\]|-> \[", code) and not re.search(r"[a-z_]\[[a-z0-9_ ./*+()-]+\]", code): continue
                    if kind == "arith" and re.search(r"format!|println!|eprintln!|write", code) and not re.search(r"[a-z_)] [-+*] (1|[a-z(])", code): continue
                    sites.append({"file": f, "kind": kind, "code": re.sub(r"\s+", " ", code)})
    return sites
def key(s): return (s["file"], s["kind"], s["code"])
if __name__ == "__main__":
    if sys.argv[1] == "scan":
        json.dump(scan(), sys.stdout, indent=1)
    else:
        want = json.load(open(sys.argv[2]))["sites"]
        have = scan()
        from collections import Counter
        cw, ch = Counter(key(s) for s in want), Counter(key(s) for s in have)
        added = list((ch - cw).elements()); removed = list((cw - ch).elements())
        if added or removed:
            for a in added: print("NEW panic-capable construct:", a)
            for r in removed: print("GONE (inventory stale):", r)
            sys.exit(1)
        print(f"panic-site inventory matches ({len(have)} sites)")
