#!/bin/bash
# run the given checks (quick) against a scratch worktree that has a seeded change applied,
# without touching /repo (development aid: VERIF_REPO, see ./check)
wt=$1; shift
cd ${VERIF_HOME:-/verif}
for c in "$@"; do VERIF_REPO=$wt ./check $c --tier ${TIER:-quick} 2>&1 | grep -E "VIOLATION|KNOWN|^\[" | head -4; done
