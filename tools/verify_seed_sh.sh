#!/bin/bash
# verify a seeded change whose demonstration is a shell script (/tmp/seed-<id>/demo.sh):
# builds, existing tests pass with the change, demo fails with / passes without.
id=$1
wt=/tmp/wt-$id
export CARGO_TARGET_DIR=$wt/target CARGO_NET_OFFLINE=true WT=$wt
cd $wt || exit 2
git checkout -q -- . 2>/dev/null
git apply /tmp/seed-$id/patch.diff || { echo "patch.diff does not apply"; exit 2; }
echo "== changed files:"; git status --short
echo "== with change: all tests"
cargo test --workspace --offline --no-fail-fast 2>&1 | grep -E "^test result|FAILED" | grep -v " 0 passed; 0 failed; 0 ignored" | head -30
echo "== with change: demo (expected non-zero)"
bash /tmp/seed-$id/demo.sh $wt 2>&1 | tail -8; echo "rc=${PIPESTATUS[0]}"
echo "== without change: demo (expected 0)"
git checkout -q -- .
bash /tmp/seed-$id/demo.sh $wt 2>&1 | tail -4; echo "rc=${PIPESTATUS[0]}"
git status --short
