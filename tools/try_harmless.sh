#!/bin/bash
# run every quick check against a worktree carrying a behaviour-preserving refactoring: nothing may be reported
# usage: tools/try_harmless.sh <worktree> <label>   (serial; uses the VERIF_REPO development aid)
wt=$1; label=$2
cd ${VERIF_HOME:-/verif}
mkdir -p /tmp/harmless-results
{
echo "######## $label ($wt)"
git -C $wt status --short | head
for c in C01 C02 C03 C04 C05 C06 C07 C08 C09 C10 C11 C12 C13 C14 C15 C16 C17 C18 C19 C20; do
  VERIF_REPO=$wt ./check $c --tier quick 2>&1 | grep -E "VIOLATION|KNOWN|^\[" | head -3
done
} > /tmp/harmless-results/$label.log 2>&1
