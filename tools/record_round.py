#!/usr/bin/env python3
"""record the seeds of a round under /verif/seeded: usage record_round.py <round> <table.json>
table.json: {"Cxx": {"name": "...", "strengthened": bool, "detected_by": {"Cxx": "..."}}}"""
import json, os, re, shutil, sys
R = sys.argv[1]; table = json.load(open(sys.argv[2]))
def sect(t, pats):
    for pat in pats:
        for m in re.finditer(r'^#+ *[^\n]*(?:%s)[^\n]*\n+((?:(?!^#).*\n?)+)' % pat, t, re.M | re.I):
            body = ' '.join(m.group(1).split())
            if body: return body
    return ''
for c, e in sorted(table.items()):
    sd = f'/tmp/seed{R}-{c}'; log = f'/tmp/seed{R}-results/{c}.log'
    notes = open(f'{sd}/notes.md').read()
    head = re.search(r'^##+ *((?:The )?[Cc]hange[^\n]*)', notes, re.M)
    breaks = e.get('breaks') or ((head.group(1) + ': ' if head else '') + sect(notes, ['change']))[:400]
    trig = e.get('trigger') or sect(notes, ['trigger', 'manifest', 'needed'])[:500]
    lg = open(log).read() if os.path.exists(log) else ''
    with_change, _, without = lg.partition('== without change')
    without = without.partition('== checks against')[0]
    d = f'/verif/seeded/{e["name"]}'
    os.makedirs(d, exist_ok=True)
    for f in os.listdir(sd):
        p = os.path.join(sd, f)
        if os.path.isfile(p) and (f in ('patch.diff', 'notes.md') or f.endswith('.rs') or f.endswith('.sh')) and os.path.getsize(p) < 200000:
            shutil.copy(p, os.path.join(d, f))
    demo = 'tests/seeded_demo.rs'
    m = re.search(r'([a-z_]+_gen/tests/seeded_demo\.rs)', notes)
    if m: demo = m.group(1)
    meta = {
        "property": c, "round": int(R), "breaks": breaks, "needs_to_manifest": trig, "base_commit": "8a3af41",
        "produced_by": "independent sub-agent given only the property text, a scratch worktree and one-line descriptions of the earlier changes to avoid",
        "confirmed": {"cmd": f"R={R} tools/verify_seed2.sh {c}",
                      "existing_tests_pass_with_change": with_change.count('test result: ok') >= 4,
                      "demo_fails_with_change": 'FAILED' in with_change or 'rc=1' in with_change,
                      "demo_passes_without_change": ('test result: ok' in without or 'rc=0' in without) and 'FAILED' not in without},
        "demo_placement": demo,
        "checks_run": [f"VERIF_REPO=/tmp/wt{R}-{c} ./check {c} --tier quick"],
        "check_strengthened": e["strengthened"], "detected_by": e["detected_by"],
    }
    json.dump(meta, open(f'{d}/meta.json', 'w'), indent=1, ensure_ascii=False)
    print(c, e['name'], meta['confirmed'])
