#!/usr/bin/env python3
"""Source pin: the state the models represent is the state the implementation has.

The Lean models treat every `BDDEnv` operation as a function of its operands and of the node
table (`Model/Env.lean`: `Env = {next, table}`), a `BDDSet` as environment + diagram + width,
and a `ParsedFormula` as variables + tree + environment + definitions.  A field added to one of
these structs (an operation cache, a memo table, a counter) is state carried between calls that
no model represents: the correspondence run may not reach the histories in which it matters
(a memo keyed by a 64-bit hash needs a hash collision to go wrong), so the tie between model
and code is reported as broken.

usage: state_pin.py <repo>   -> exit 0 if the structs have exactly the expected fields
"""
import re, sys

EXPECTED = {
    ("src/bdd.rs", "BDDEnv"): ["nodes"],
    ("src/set.rs", "BDDSet"): ["env", "bdd", "bits"],
    ("src/parser.rs", "ParsedFormula"): ["vars", "free_vars", "raw2free", "bdd", "env", "definitions"],
}

def fields(path, name):
    src = open(path, encoding="utf-8").read()
    m = re.search(r"pub struct %s\b[^{;]*\{" % re.escape(name), src)
    if not m:
        return None
    i = m.end(); depth = 1; j = i
    while j < len(src) and depth:
        depth += {"{": 1, "}": -1}.get(src[j], 0); j += 1
    body = re.sub(r"//[^\n]*", "", src[i:j - 1])
    out = []; depth = 0; cur = ""
    for ch in body:
        if ch in "<([{": depth += 1
        elif ch in ">)]}": depth -= 1
        if ch == "," and depth == 0:
            out.append(cur); cur = ""
        else:
            cur += ch
    out.append(cur)
    names = []
    for f in out:
        f = f.strip()
        if not f: continue
        f = re.sub(r"#\[[^\]]*\]", "", f).strip()
        f = re.sub(r"^pub(\([^)]*\))?\s+", "", f)
        names.append(f.split(":")[0].strip())
    return names

def main():
    repo = sys.argv[1] if len(sys.argv) > 1 else "/repo"
    bad = 0
    for (rel, name), want in EXPECTED.items():
        got = fields(f"{repo}/{rel}", name)
        if got != want:
            print(f"{rel}: struct {name} has fields {got}, the models represent {want}")
            bad = 1
    if not bad:
        print("state pin ok: BDDEnv, BDDSet and ParsedFormula carry exactly the state the models represent")
    sys.exit(bad)

main()
