#!/bin/bash
# verify a seeded change in /tmp/wt-<id> against /tmp/seed-<id>/patch.diff:
# builds, existing tests pass, demo fails with / passes without.  (No `git stash`: the stash is shared by all worktrees.)
id=$1
wt=/tmp/wt-$id
export CARGO_TARGET_DIR=$wt/target CARGO_NET_OFFLINE=true
cd $wt || exit 2
git checkout -q -- . 2>/dev/null
git apply /tmp/seed-$id/patch.diff || { echo "patch.diff does not apply"; exit 2; }
echo "== changed files:"; git status --short
echo "== with change: all tests (demo expected to fail, the rest to pass)"
cargo test --workspace --offline --no-fail-fast 2>&1 | grep -E "^test result|Running|FAILED" | grep -v " 0 passed; 0 failed; 0 ignored" | head -30
echo "== without change: demo only"
git checkout -q -- .
cargo test --offline --test seeded_demo 2>&1 | grep -E "^test result|FAILED" | head
git apply /tmp/seed-$id/patch.diff
git status --short
