#!/bin/bash
# verify seeds of round $R in their own worktrees and run the checks against the worktree with the
# patch applied (VERIF_REPO; /repo is not touched).  Serial; log to /tmp/seed$R-results/<id>.log
R=${R:-6}; export R; mkdir -p /tmp/seed$R-results
for id in "$@"; do
  { echo "######## $id"; tools/verify_seed2.sh $id
    wt=/tmp/wt$R-$id
    git -C $wt apply /tmp/seed$R-$id/patch.diff && rm -f $wt/tests/seeded_demo.rs
    echo "== checks against the worktree with the patch"; tools/try_seed_wt.sh $wt $id ${EXTRA}
    git -C $wt checkout -q -- . ; } > /tmp/seed$R-results/$id.log 2>&1
done
echo ALLDONE
