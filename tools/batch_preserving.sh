#!/bin/bash
# every quick check against each change that alters observable output but keeps its property (patches
# /tmp/seedP-<id>/patch.diff, worktrees /tmp/wtP-<id>); serial.  What matters: a check may report a broken
# correspondence (…no-failing-input-found) but must not present a failing input (oracle_fail must stay 0).
# usage: tools/batch_preserving.sh C07 C10 …  -> $res/<id>.log + summary.txt
cd ${VERIF_HOME:-/verif}
K=${K:-P}; res=/tmp/preserving$K-results; mkdir -p $res
for id in "$@"; do
  wt=/tmp/wt$K-$id
  git -C $wt checkout -q -- . ; git -C $wt clean -fdq -e target
  if ! git -C $wt apply /tmp/seed$K-$id/patch.diff; then echo "$id PATCH-DOES-NOT-APPLY" >> $res/summary.txt; continue; fi
  for c in ${CHECKS:-C01 C02 C03 C04 C05 C06 C07 C08 C09 C10 C11 C12 C13 C14 C15 C16 C17 C18 C19 C20}; do
    VERIF_REPO=$wt ./check $c --tier quick 2>&1 | grep -E "VIOLATION|KNOWN|^\[|NOTE|pin" | head -8
  done > $res/$id.log 2>&1
  git -C $wt checkout -q -- .
  echo "$id: $(grep -c 'VIOLATION' $res/$id.log) violation lines, $(grep 'VIOLATION' $res/$id.log | grep -vc 'no-failing-input-found') WITH A FAILING INPUT; $(grep '^\[' $res/$id.log | grep -v ' OK' | sed 's/ tier.*model_diff/ model_diff/; s/ wall.*//' | tr '\n' ' ')" >> $res/summary.txt
done
echo BATCH-DONE >> $res/summary.txt
