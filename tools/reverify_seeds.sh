#!/bin/bash
# re-run the recorded seeds of the given rounds against a scratch worktree (sound rebuild per seed: ./check touches
# the sources under VERIF_REPO).  usage: tools/reverify_seeds.sh <round> [<round> …]   -> $out/<name>.log
cd ${VERIF_HOME:-/verif}
out=${OUT:-/tmp/reverify}; mkdir -p $out
wt=${WT:-/tmp/wt-reverify}
git -C /repo worktree remove --force $wt 2>/dev/null; rm -rf $wt; git -C /repo worktree prune
git -C /repo worktree add --detach $wt HEAD >/dev/null 2>&1
for r in "$@"; do
  for m in seeded/*/meta.json; do
    d=$(dirname $m); name=$(basename $d)
    rnd=$(python3 -c "import json;print(json.load(open('$m')).get('round'))")
    prop=$(python3 -c "import json;print(json.load(open('$m'))['property'])")
    [ "$rnd" = "$r" ] || continue
    # PROPS="C15 C17": only the seeds of these properties
    if [ -n "$PROPS" ] && ! echo " $PROPS " | grep -q " $prop "; then continue; fi
    git -C $wt checkout -q -- . ; git -C $wt clean -fdq
    if ! git -C $wt apply ${VERIF_HOME:-/verif}/$d/patch.diff 2>/dev/null; then echo "$name: PATCH-DOES-NOT-APPLY" > $out/$name.log; continue; fi
    VERIF_REPO=$wt ./check $prop --tier quick 2>&1 | grep -E "VIOLATION|KNOWN|^\[" | head -4 > $out/$name.log
    echo "$r $prop $name: $(grep -c VIOLATION $out/$name.log) $(grep -c no-failing-input-found $out/$name.log)" >> $out/summary.txt
  done
done
git -C /repo worktree remove --force $wt; rm -rf $wt; git -C /repo worktree prune
echo REVERIFY-DONE >> $out/summary.txt
