#!/bin/bash
# re-run the quick check of each seed of round $R (patches /tmp/seed$R-<id>/patch.diff, worktrees /tmp/wt$R-<id>)
# against its worktree; serial.  usage: R=9 tools/batch_round.sh C01 C02 …   -> /tmp/seed$R-recheck/<id>.log
R=${R:-9}; mkdir -p /tmp/seed$R-recheck
cd ${VERIF_HOME:-/verif}
for id in "$@"; do
  wt=/tmp/wt$R-$id
  git -C $wt checkout -q -- . ; git -C $wt clean -fdq -e target
  if ! git -C $wt apply /tmp/seed$R-$id/patch.diff; then echo "$id PATCH-DOES-NOT-APPLY" >> /tmp/seed$R-recheck/summary.txt; continue; fi
  rm -f $wt/tests/seeded_demo.rs
  tools/try_seed_wt.sh $wt $id > /tmp/seed$R-recheck/$id.log 2>&1
  git -C $wt checkout -q -- . ; git -C $wt clean -fdq -e target
  echo "$id: $(grep -c VIOLATION /tmp/seed$R-recheck/$id.log) $(grep -c no-failing-input-found /tmp/seed$R-recheck/$id.log)" >> /tmp/seed$R-recheck/summary.txt
done
echo BATCH-DONE >> /tmp/seed$R-recheck/summary.txt
