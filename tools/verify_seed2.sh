#!/bin/bash
# verify a round-2 seeded change in /tmp/wt2-<id> against /tmp/seed2-<id>/patch.diff
# (demo is either tests/seeded_demo.rs or a shell script demo.sh / seeded_demo.sh)
id=$1
R=${R:-2}; wt=/tmp/wt$R-$id; sd=/tmp/seed$R-$id
export CARGO_TARGET_DIR=$wt/target CARGO_NET_OFFLINE=true WT=$wt
cd $wt || exit 2
git checkout -q -- . 2>/dev/null
git apply $sd/patch.diff || { echo "patch.diff does not apply"; exit 2; }
echo "== changed files:"; git status --short
demo_sh=$(ls $sd/*.sh 2>/dev/null | head -1)
if [ -f $sd/seeded_demo.rs ]; then mkdir -p tests; cp $sd/seeded_demo.rs tests/seeded_demo.rs; fi
echo "== with change: all tests (only the demo may fail)"
cargo build --workspace --offline 2>&1 | grep -E "^error" | head
cargo test --workspace --offline --no-fail-fast 2>&1 | grep -E "^test result|Running|FAILED|failed" | grep -v " 0 passed; 0 failed; 0 ignored" | head -30
if [ -n "$demo_sh" ]; then echo "== demo.sh with change"; bash $demo_sh $wt 2>&1 | tail -5; echo "rc=${PIPESTATUS[0]}"; fi
echo "== without change: demo only"
git checkout -q -- .
cargo build --workspace --offline 2>&1 | grep -E "^error" | head
if [ -f tests/seeded_demo.rs ]; then cargo test --offline --test seeded_demo 2>&1 | grep -E "^test result|FAILED" | head; fi
if [ -n "$demo_sh" ]; then bash $demo_sh $wt 2>&1 | tail -3; echo "rc=${PIPESTATUS[0]}"; fi
git status --short
