#!/bin/bash
# apply a seeded patch to /repo, run the given checks (quick), revert
patch=$1; shift
cd /repo && git status --short | grep -v '^??' && { echo "/repo not clean"; exit 2; }
git -C /repo apply $patch || { echo "patch does not apply"; exit 2; }
cd /verif
for c in "$@"; do ./check $c --tier ${TIER:-quick} 2>&1 | grep -E "VIOLATION|KNOWN|^\[" | head -4; done
git -C /repo checkout -- . && git -C /repo status --short
